claim("C06", "exploration",
      "Seeded search over delivery schedules: the real blocking and async parsers read well-formed messages from a scripted source whose every return value (chunk size, EINTR, Pending + wake timing) comes from the trace; the source's byte counter must equal the offset of the end-of-attributes tag when parse/parse_parts returns, the result must equal the unfragmented parse and the payload must come back intact. Exploration is the right level: the schedule space is unbounded, the check samples it with hundreds of thousands of replayable runs and reports measured reach (event kind x token class).",
      "Trusted: the harness's reference encoder/tokenizer (refcodec), the scripted source and executor, std/futures read_exact. Sampled, not exhaustive.",
      "deterministic simulation: scripted Read/AsyncRead sources + scripted executor, seeded schedules, byte-counter invariant",
      "DESIGN.md 5.2")
