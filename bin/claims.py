claim("C06", "exploration",
      "Seeded search over delivery schedules: the real blocking and async parsers read well-formed messages from a scripted source whose every return value (chunk size, EINTR, Pending + wake timing) comes from the trace; the source's byte counter must equal the offset of the end-of-attributes tag when parse/parse_parts returns, the result must equal the unfragmented parse and the payload must come back intact. Exploration is the right level: the schedule space is unbounded, the check samples it with hundreds of thousands of replayable runs and reports measured reach (event kind x token class).",
      "Trusted: the harness's reference encoder/tokenizer (refcodec), the scripted source and executor, std/futures read_exact. Sampled, not exhaustive.",
      "deterministic simulation: scripted Read/AsyncRead sources + scripted executor, seeded schedules, byte-counter invariant",
      "DESIGN.md 5.2")
claim("C05", "exploration",
      "Differential simulation: the real async parser runs on a scripted executor over a scripted AsyncRead (seeded chunking, Pending with inline/deferred wake, spurious polls), the real blocking parser reads the same bytes unfragmented; outcome (content, offending tag, I/O error kind, panic class) and trailing data must be equal, for parse and parse_parts, on well-formed, reference-only, damaged and truncated streams, with optional identical faults on both sides. Exploration: seeded search over streams x schedules; executor invariants (no lost wake-up, bounded polls) are checked on every run.",
      "Trusted: scripted executor/source, refcodec for building streams. Because the oracle is differential, codec defects of unclaimed properties cancel out. Sampled, not exhaustive over compositions.",
      "deterministic simulation: scripted executor + scripted AsyncRead vs blocking reference, differential oracle",
      "DESIGN.md 5.1")
claim("C07", "fault_enumeration",
      "Per seeded well-formed message and parser front end, a single sticky fault (stream cut, or one of 7-8 I/O error kinds) is placed at byte offsets before the end-of-attributes tag — every offset in the thorough tier, ~34 edge-biased offsets in the quick tier — each under three fragmentations (whole, byte-at-a-time, seeded with EINTR/Pending). The result must be Err carrying the injected kind; never Ok, never a panic. This is crash-at-every-point fault enumeration per workload, with seeded workloads.",
      "Trusted: scripted source with data-offset faults; messages are sampled, the fault space per message is enumerated as stated in the evidence rule.",
      "deterministic simulation: systematic single-fault placement (EOF / I/O error kind x offset x fragmentation)",
      "DESIGN.md 5.3")
claim("C08", "exploration",
      "The real into_read / into_async_read streams (Cursor chained with IppPayload, AllowStdIo and block_on bridges) are consumed with seeded per-call buffer sizes while the payload source is scripted (chunking, EINTR, Pending with inline / deferred / cross-thread wake). Conservation oracle: bytes out == to_bytes() of the same instance ++ payload, sticky EOF, payload source drained exactly. All six cells of payload kind x consumer kind are exercised on every batch.",
      "Trusted: scripted sources/executor. The async-payload-behind-blocking-interface cell runs under the real futures_executor::block_on with a real helper thread (token-based, outcome-deterministic; verified by the determinism self-check). No payload-source errors are injected (outside the statement).",
      "deterministic simulation: scripted payload sources and consumers across both sync<->async bridges, conservation oracle",
      "DESIGN.md 5.4")
claim("C09", "exploration",
      "The only nondeterminism this property depends on — the SipHash keys of the attribute maps — is put behind a seam (getrandom interposed per thread) and driven from VERIF_SEED: every run builds a seeded builder program four times under fresh seeded keys, serialises it and reads the order of the operation-group attribute names with the reference tokenizer; the RFC 8011 4.1.4-4.1.5 positions are asserted exactly as stated. Exploration over programs x key sets with hundreds of thousands of replayable runs (same seed => same order in any process).",
      "Trusted: the getrandom shim (self-tested at start-up, exit 2 if not effective), refcodec tokenizer. Iteration orders are sampled, not enumerated.",
      "deterministic simulation: seeded hash keys (interposed getrandom) x seeded builder programs, order decoded from bytes",
      "DESIGN.md 5.5")
claim("C02", "exploration",
      "Partial claim, as far as faults reach: a simulated Byzantine printer and a damaging wire (20 fault kinds, random subset per run) plus a fixed list of structural bombs per tier produce the bytes; the real parsers (4 front ends, seeded delivery schedule) and the stand-alone value decoder run on them in isolated worker processes on 2 MiB stacks; whatever comes back is displayed, re-encoded, traversed, cloned and dropped. Invariants: no panic, no process death (a killed worker is attributed to the run it was executing), bounded source reads / polls, 60 s watchdog. The (tag x length) grid and token-sequence enumeration of the quantifier are NOT covered (that is enumeration, not simulation) — stated in the evidence rule.",
      "Trusted: damage models and refcodec; process isolation by the harness. Sampled faults; stack overflow judged at the 2 MiB default thread stack.",
      "deterministic simulation: fault injection on the simulated peer/wire (Byzantine encoder + in-flight damage + bombs), isolated child processes, no-panic / no-abort / bounded-step invariants",
      "DESIGN.md 5.6")
