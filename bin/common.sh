# shared by bin/setup and bin/check — sourced, not executed
VERIF_ROOT="$(cd "$(dirname "$0")/.." && pwd)"
export VERIF_ROOT
SIM="$VERIF_ROOT/sim"
export CARGO_NET_OFFLINE=true
SHIM="$SIM/libverifshim.so"

build_shim() {
    if [ ! -f "$SHIM" ] || [ "$SIM/shim/getrandom.c" -nt "$SHIM" ]; then
        cc -shared -fPIC -O2 -o "$SHIM" "$SIM/shim/getrandom.c" || { echo "harness error: cannot build getrandom shim" >&2; exit 2; }
    fi
}

# build_variant <feature> : builds sim with that ipp feature set into its own target dir (incremental; picks up /repo edits)
build_variant() {
    variant="$1"
    log="$VERIF_ROOT/work/build-$variant.log"
    mkdir -p "$VERIF_ROOT/work"
    if ! (cd "$SIM" && cargo build --release --offline --no-default-features --features "$variant" --target-dir "$SIM/target-$variant" >"$log" 2>&1); then
        echo "harness error: build of variant $variant failed (see $log)" >&2
        tail -n 30 "$log" >&2
        exit 2
    fi
}

sim_bin() { echo "$SIM/target-$1/release/ippsim"; }

# ipputil: the shipped artefact, built from /repo's working tree with the guard OFF (no RUSTFLAGS), own target dir
build_ipputil() {
    log="$VERIF_ROOT/work/build-ipputil.log"
    mkdir -p "$VERIF_ROOT/work"
    if ! (cd /repo && env -u RUSTFLAGS cargo build --release --offline -p ipp-util --target-dir "$VERIF_ROOT/target-ipputil" >"$log" 2>&1); then
        echo "harness error: build of ipputil failed (see $log)" >&2
        tail -n 30 "$log" >&2
        exit 2
    fi
}
