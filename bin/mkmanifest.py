#!/usr/bin/env python3
"""Regenerates MANIFEST.json from the table below (kept as a script so that the claimed / not-applicable split,
the commands and the level texts stay in one place)."""
import json, os, subprocess
ROOT = os.path.dirname(os.path.dirname(os.path.abspath(__file__)))

CLAIMED = {}
def claim(pid, category, text, note, technique, design_ref, thorough=True):
    CLAIMED[pid] = dict(
        property_id=pid,
        quick_cmd=f"bin/check {pid} quick",
        **({"thorough_cmd": f"bin/check {pid} thorough"} if thorough else {}),
        evidence_file=f"/verif/evidence/{pid}.json",
        replay_cmd_template=f"bin/check {pid} --replay {{path}}",
        engine="ippsim",
        level_claimed=dict(category=category, text=text, design_ref=design_ref),
        level_note=note,
        technique=technique,
    )

exec(open(os.path.join(ROOT, "bin", "claims.py")).read())

NA = json.load(open(os.path.join(ROOT, "bin", "not_applicable.json")))
na = [dict(property_id=k, reason=v) for k, v in sorted(NA.items()) if k not in CLAIMED]
try:
    hooks_commits = [l.split()[0] for l in subprocess.check_output(
        ["git", "-C", "/repo", "log", "--format=%H %s", "--grep=^hook:"], text=True).splitlines()]
except Exception:
    hooks_commits = []
m = dict(
    version=1,
    setup_cmd="bin/setup",
    hooks=dict(
        guard="ipp_verif",
        enable="RUSTFLAGS='--cfg ipp_verif' (set in /verif/sim/.cargo/config.toml; the harness crate depends on /repo/ipp by path)",
        baseline_off_cmd="cd /repo && cargo test --workspace --no-fail-fast --offline",
        source_commits=hooks_commits,
        add_only=True,
    ),
    engines=[dict(name="ippsim", path="/verif/sim", serves_properties=sorted(CLAIMED),
                  kind_free_text="hand-written deterministic simulator: scripted Read/AsyncRead sources, scripted executor and wakers, seeded hash keys (getrandom shim), simulated HTTP/IPP printer, isolated worker processes; one PRNG seeded from VERIF_SEED generates every workload, schedule and fault; replay files are pure data")],
    checks=[CLAIMED[k] for k in sorted(CLAIMED)],
    notes="Technique family: deterministic simulation with fault injection. Properties that are pure functions of their input are listed under not_applicable (see DESIGN.md section 6). Exit codes: 0 held, 1 VIOLATION, 2 harness error (never a VIOLATION line).",
    not_applicable=na,
)
json.dump(m, open(os.path.join(ROOT, "MANIFEST.json"), "w"), indent=1)
print("claimed:", sorted(CLAIMED), "n/a:", [x["property_id"] for x in na])
