#!/usr/bin/env python3
"""Regenerates the 'change | check | violation class reported' table of DESIGN.md 14.4 from seeded/RESULTS.json."""
import json, os, re
ROOT = os.path.dirname(os.path.dirname(os.path.abspath(__file__)))
res = json.load(open(os.path.join(ROOT, "seeded", "RESULTS.json")))
rows = ["| change | check | violation class reported |", "|---|---|---|"]
for r in sorted(res, key=lambda r: r["name"]):
    cls = r.get("target", {}).get("cls", "")
    m = re.search(r"class=(\S+)(?: detail=(.*))?", cls)
    c = m.group(1) if m else "?"
    if c in ("panic", "invalid-server-accepted", "valid-server-rejected", "request-sent-in-cleartext") and m and m.group(2):
        c = (c + (": " if c == "panic" else " ") + re.sub(r"\d+", "#", m.group(2)) if c == "panic" else c + " " + m.group(2))[:110]
    c = "".join(ch for ch in c if ch >= " ").replace("|", "/")
    rows.append(f"| `{r['name']}` | {r['property']} | {c if r.get('caught') else 'MISSED'} |")
p = os.path.join(ROOT, "DESIGN.md")
s = open(p).read()
start = s.index("| change | check | violation class reported |")
end = s.index("### 14.5")
s = s[:start] + "\n".join(rows) + "\n\n" + s[end:]
open(p, "w").write(s)
caught = sum(1 for r in res if r.get("caught"))
print(f"{caught}/{len(res)} caught")
