#!/bin/sh
# Generates the committed TLS fixtures for C12 (test-only keys). Run once; the outputs are committed so that
# checks are offline and identical everywhere. Needs OpenSSL >= 3.4 (x509 -not_before/-not_after).
set -e
cd "$(dirname "$0")"
rm -f *.pem *.der *.srl *.csr
key() { openssl ecparam -name prime256v1 -genkey -noout -out "$1.sec1.pem" 2>/dev/null; openssl pkcs8 -topk8 -nocrypt -in "$1.sec1.pem" -out "$1.key.pem"; openssl pkcs8 -topk8 -nocrypt -in "$1.sec1.pem" -outform DER -out "$1.key.der"; rm -f "$1.sec1.pem"; }
ca() { # name, CN
    key "$1"
    openssl req -x509 -new -key "$1.key.pem" -sha256 -subj "/CN=$2" -not_before 20200101000000Z -not_after 21250101000000Z \
        -addext "basicConstraints=critical,CA:TRUE" -addext "keyUsage=critical,keyCertSign,cRLSign" -out "$1.cert.pem"
    openssl x509 -in "$1.cert.pem" -outform DER -out "$1.cert.der"
}
leaf() { # name, issuer, SAN, not_before, not_after
    key "$1"
    openssl req -new -key "$1.key.pem" -subj "/CN=sim printer $1" -out "$1.csr"
    printf "basicConstraints=critical,CA:FALSE\nkeyUsage=critical,digitalSignature\nextendedKeyUsage=serverAuth\nsubjectAltName=%s\n" "$3" > "$1.ext"
    openssl x509 -req -in "$1.csr" -CA "$2.cert.pem" -CAkey "$2.key.pem" -CAcreateserial -sha256 -not_before "$4" -not_after "$5" -extfile "$1.ext" -out "$1.cert.pem" 2>/dev/null
    openssl x509 -in "$1.cert.pem" -outform DER -out "$1.cert.der"
    rm -f "$1.csr" "$1.ext"
}
ca testca "ippsim test CA"
ca otherca "ippsim unknown CA"
ca unrelated "ippsim unrelated root"
GOOD="DNS:localhost,IP:127.0.0.1"
leaf valid     testca  "$GOOD"                 20200101000000Z 21250101000000Z
leaf wronghost testca  "DNS:printer.invalid"   20200101000000Z 21250101000000Z
leaf expired   testca  "$GOOD"                 20200101000000Z 20200201000000Z
leaf unknownca otherca "$GOOD"                 20200101000000Z 21250101000000Z
# self-signed leaf (not a CA)
key selfsigned
openssl req -x509 -new -key selfsigned.key.pem -sha256 -subj "/CN=sim printer selfsigned" -not_before 20200101000000Z -not_after 21250101000000Z \
    -addext "basicConstraints=critical,CA:FALSE" -addext "keyUsage=critical,digitalSignature" -addext "extendedKeyUsage=serverAuth" -addext "subjectAltName=$GOOD" -out selfsigned.cert.pem
openssl x509 -in selfsigned.cert.pem -outform DER -out selfsigned.cert.der
rm -f *.srl otherca.key.* unrelated.key.* testca.key.der   # testca.key.pem is kept: C12 mints a just-expired leaf at run time
ls -1
