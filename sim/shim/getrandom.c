/* Hash-key seam: interposes getrandom(2) (LD_PRELOAD).  A thread that called verif_set_thread_seed(s) gets
 * SplitMix64(s) output from getrandom(); every other thread falls through to the real system call, so TLS
 * libraries keep real randomness.  std initialises RandomState's per-thread keys lazily with one getrandom call,
 * so a fresh thread that first sets a seed has HashMap iteration orders that are a function of that seed only. */
#define _GNU_SOURCE
#include <stddef.h>
#include <stdint.h>
#include <sys/types.h>
#include <sys/syscall.h>
#include <unistd.h>

static __thread int      tl_seeded = 0;
static __thread uint64_t tl_state  = 0;
static __thread uint64_t tl_calls  = 0;

void verif_set_thread_seed(uint64_t seed) { tl_seeded = 1; tl_state = seed; tl_calls = 0; }
void verif_clear_thread_seed(void) { tl_seeded = 0; }
uint64_t verif_thread_calls(void) { return tl_calls; }
int verif_shim_present(void) { return 1; }

static uint64_t splitmix(void) {
    uint64_t z = (tl_state += 0x9e3779b97f4a7c15ULL);
    z = (z ^ (z >> 30)) * 0xbf58476d1ce4e5b9ULL;
    z = (z ^ (z >> 27)) * 0x94d049bb133111ebULL;
    return z ^ (z >> 31);
}

ssize_t getrandom(void *buf, size_t len, unsigned int flags) {
    if (!tl_seeded) return syscall(SYS_getrandom, buf, len, flags);
    tl_calls++;
    unsigned char *p = buf;
    size_t i = 0;
    while (i < len) {
        uint64_t r = splitmix();
        for (int k = 0; k < 8 && i < len; k++, i++) p[i] = (unsigned char)(r >> (8 * k));
    }
    return (ssize_t)len;
}

/* Clock seam: interposes clock_gettime(2).  verif_advance_clock_ns(n) makes every clock of the process jump forward by
 * n nanoseconds from then on (a scripted source "takes 300 ms" without any real waiting).  The skew only ever grows,
 * so the monotonic clocks stay monotonic; with no call to verif_advance_clock_ns the function is the identity. */
#include <time.h>
#include <dlfcn.h>
#include <stdatomic.h>

static _Atomic uint64_t clock_skew_ns = 0;
void verif_advance_clock_ns(uint64_t ns) { atomic_fetch_add(&clock_skew_ns, ns); }
uint64_t verif_clock_skew_ns(void) { return atomic_load(&clock_skew_ns); }

typedef int (*clock_gettime_fn)(clockid_t, struct timespec *);
static _Atomic(clock_gettime_fn) real_clock_gettime = 0;

int clock_gettime(clockid_t id, struct timespec *ts) {
    clock_gettime_fn f = atomic_load(&real_clock_gettime);
    if (!f) {
        f = (clock_gettime_fn)dlsym(RTLD_NEXT, "clock_gettime");
        if (f) atomic_store(&real_clock_gettime, f);
    }
    int r = f ? f(id, ts) : (int)syscall(SYS_clock_gettime, id, ts);
    if (r != 0) return r;
    uint64_t skew = atomic_load(&clock_skew_ns);
    if (skew && (id == CLOCK_MONOTONIC || id == CLOCK_REALTIME || id == CLOCK_BOOTTIME || id == CLOCK_MONOTONIC_RAW ||
                 id == CLOCK_MONOTONIC_COARSE || id == CLOCK_REALTIME_COARSE)) {
        uint64_t ns = (uint64_t)ts->tv_nsec + skew % 1000000000ULL;
        ts->tv_sec += (time_t)(skew / 1000000000ULL) + (time_t)(ns / 1000000000ULL);
        ts->tv_nsec = (long)(ns % 1000000000ULL);
    }
    return r;
}
