/* Hash-key seam: interposes getrandom(2) (LD_PRELOAD).  A thread that called verif_set_thread_seed(s) gets
 * SplitMix64(s) output from getrandom(); every other thread falls through to the real system call, so TLS
 * libraries keep real randomness.  std initialises RandomState's per-thread keys lazily with one getrandom call,
 * so a fresh thread that first sets a seed has HashMap iteration orders that are a function of that seed only. */
#define _GNU_SOURCE
#include <stddef.h>
#include <stdint.h>
#include <sys/types.h>
#include <sys/syscall.h>
#include <unistd.h>

static __thread int      tl_seeded = 0;
static __thread uint64_t tl_state  = 0;
static __thread uint64_t tl_calls  = 0;

void verif_set_thread_seed(uint64_t seed) { tl_seeded = 1; tl_state = seed; tl_calls = 0; }
void verif_clear_thread_seed(void) { tl_seeded = 0; }
uint64_t verif_thread_calls(void) { return tl_calls; }
int verif_shim_present(void) { return 1; }

static uint64_t splitmix(void) {
    uint64_t z = (tl_state += 0x9e3779b97f4a7c15ULL);
    z = (z ^ (z >> 30)) * 0xbf58476d1ce4e5b9ULL;
    z = (z ^ (z >> 27)) * 0x94d049bb133111ebULL;
    return z ^ (z >> 31);
}

ssize_t getrandom(void *buf, size_t len, unsigned int flags) {
    if (!tl_seeded) return syscall(SYS_getrandom, buf, len, flags);
    tl_calls++;
    unsigned char *p = buf;
    size_t i = 0;
    while (i < len) {
        uint64_t r = splitmix();
        for (int k = 0; k < 8 && i < len; k++, i++) p[i] = (unsigned char)(r >> (8 * k));
    }
    return (ssize_t)len;
}
