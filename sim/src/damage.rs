//! Fault models that produce the *bytes* a parser sees: a Byzantine printer (buggify sites in the reference
//! encoder's token stream) and in-flight damage on the simulated wire. Applied at generation time to
//! reference-encoded messages; the result is stored in the case as raw bytes, so replay is exact.

use crate::{
    refcodec::{Encoded, Tok, TokClass},
    rng::Rng,
};

pub const KINDS: [&str; 20] = [
    "bit_flip",
    "byte_overwrite",
    "truncate",
    "truncate_garbage_tail",
    "chunk_drop",
    "chunk_dup",
    "chunk_swap",
    "len_plus_minus_one",
    "len_zero",
    "len_max",
    "len_swallow_next",
    "fixed_width_resize",
    "inner_len_lie",
    "tag_substitute",
    "token_delete",
    "token_duplicate",
    "token_swap",
    "splice_other_message",
    "collection_imbalance",
    "insert_garbage",
];

fn toks_of(toks: &[Tok], class: TokClass) -> Vec<Tok> {
    toks.iter().copied().filter(|t| t.class == class).collect()
}

/// element = value-tag token index range [tag .. end of its value) in the byte string
fn elements(toks: &[Tok]) -> Vec<(usize, usize)> {
    let mut out = Vec::new();
    let mut i = 0;
    while i < toks.len() {
        if toks[i].class == TokClass::ValueTag {
            let start = toks[i].start;
            let mut end = toks[i].end;
            let mut j = i + 1;
            while j < toks.len() && !matches!(toks[j].class, TokClass::ValueTag | TokClass::Delim | TokClass::EndTag) {
                end = toks[j].end;
                j += 1;
            }
            out.push((start, end));
            i = j;
        } else {
            i += 1;
        }
    }
    out
}

/// Apply one damage of the given kind; returns false when the kind has no site in this message.
pub fn apply(kind: &str, rng: &mut Rng, b: &mut Vec<u8>, toks: &[Tok], other: &Encoded) -> bool {
    if b.is_empty() {
        return false;
    }
    let lens: Vec<Tok> = toks.iter().copied().filter(|t| matches!(t.class, TokClass::NameLen | TokClass::ValueLen)).collect();
    match kind {
        "bit_flip" => {
            let n = rng.usize(1, 3);
            for _ in 0..n {
                let i = rng.usize(0, b.len() - 1);
                b[i] ^= 1 << rng.below(8);
            }
            true
        }
        "byte_overwrite" => {
            let i = rng.usize(0, b.len() - 1);
            b[i] = rng.byte();
            true
        }
        "truncate" => {
            let k = rng.usize(0, b.len() - 1);
            b.truncate(k);
            true
        }
        "truncate_garbage_tail" => {
            let k = rng.usize(0, b.len() - 1);
            b.truncate(k);
            let n = rng.usize(1, 8);
            b.extend(rng.bytes(n));
            true
        }
        "chunk_drop" | "chunk_dup" | "chunk_swap" => {
            if b.len() < 4 {
                return false;
            }
            let a = rng.usize(0, b.len() - 2);
            let len = rng.usize(1, (b.len() - a).min(16));
            let chunk: Vec<u8> = b[a..a + len].to_vec();
            match kind {
                "chunk_drop" => {
                    b.drain(a..a + len);
                }
                "chunk_dup" => {
                    let at = a + len;
                    for (i, x) in chunk.iter().enumerate() {
                        b.insert(at + i, *x);
                    }
                }
                _ => {
                    // swap with the following chunk of the same length if there is one
                    if a + 2 * len > b.len() {
                        return false;
                    }
                    for i in 0..len {
                        b.swap(a + i, a + len + i);
                    }
                }
            }
            true
        }
        "len_plus_minus_one" | "len_zero" | "len_max" | "len_swallow_next" => {
            if lens.is_empty() {
                return false;
            }
            let t = *rng.pick(&lens);
            let cur = u16::from_be_bytes([b[t.start], b[t.start + 1]]);
            let new = match kind {
                "len_plus_minus_one" => {
                    if rng.chance(1, 2) {
                        cur.wrapping_add(1)
                    } else {
                        cur.wrapping_sub(1)
                    }
                }
                "len_zero" => 0,
                "len_max" => *rng.pick(&[0xffffu16, 0xfffe, 0x8000, 0x7fff]),
                _ => {
                    // swallow the next element: add its full encoded size
                    let els = elements(toks);
                    match els.iter().find(|e| e.0 >= t.end + cur as usize) {
                        Some(e) => cur.wrapping_add((e.1 - e.0) as u16),
                        None => cur.wrapping_add(5),
                    }
                }
            };
            b[t.start..t.start + 2].copy_from_slice(&new.to_be_bytes());
            true
        }
        "fixed_width_resize" => {
            // a value is written with width 0..16 and an honest length field: well-framed, illegal for its syntax
            let mut sites = Vec::new();
            for (i, t) in toks.iter().enumerate() {
                if t.class == TokClass::ValueTag && matches!(b[t.start], 0x21 | 0x22 | 0x23 | 0x31 | 0x32 | 0x33 | 0x35 | 0x36) {
                    // find its ValueLen token
                    if let Some(vl) = toks[i + 1..].iter().take(4).find(|x| x.class == TokClass::ValueLen) {
                        sites.push(*vl);
                    }
                }
            }
            if sites.is_empty() {
                return false;
            }
            let vl = *rng.pick(&sites);
            let cur = u16::from_be_bytes([b[vl.start], b[vl.start + 1]]) as usize;
            let w = rng.usize(0, 16);
            let body = rng.bytes(w);
            let from = vl.end;
            let to = (from + cur).min(b.len());
            b.splice(from..to, body);
            b[vl.start..vl.start + 2].copy_from_slice(&(w as u16).to_be_bytes());
            true
        }
        "inner_len_lie" => {
            let mut sites = Vec::new();
            for (i, t) in toks.iter().enumerate() {
                if t.class == TokClass::ValueTag && matches!(b[t.start], 0x35 | 0x36) {
                    if let Some(v) = toks[i + 1..].iter().take(5).find(|x| x.class == TokClass::Value) {
                        sites.push(*v);
                    }
                }
            }
            if sites.is_empty() {
                return false;
            }
            let v = *rng.pick(&sites);
            if v.end - v.start < 2 {
                return false;
            }
            let lie = *rng.pick(&[0xffffu16, 0x0100, 0, 1, 2, 3, 5, 0x7fff]);
            let l1 = u16::from_be_bytes([b[v.start], b[v.start + 1]]) as usize;
            if rng.chance(1, 2) || v.start + 2 + l1 + 2 > v.end {
                b[v.start..v.start + 2].copy_from_slice(&lie.to_be_bytes());
            } else {
                let p = v.start + 2 + l1;
                b[p..p + 2].copy_from_slice(&lie.to_be_bytes());
            }
            true
        }
        "tag_substitute" => {
            let tags: Vec<Tok> = toks.iter().copied().filter(|t| matches!(t.class, TokClass::ValueTag | TokClass::Delim | TokClass::EndTag)).collect();
            if tags.is_empty() {
                return false;
            }
            let t = *rng.pick(&tags);
            b[t.start] = match rng.below(4) {
                0 => rng.byte(),
                1 => *rng.pick(&[0x00u8, 0x06, 0x0f, 0x4b, 0x7f, 0x80, 0xff]),
                2 => *rng.pick(&[0x21u8, 0x22, 0x23, 0x31, 0x32, 0x33, 0x35, 0x36, 0x34, 0x37, 0x4a]),
                _ => *rng.pick(&[0x01u8, 0x02, 0x03, 0x04, 0x05]),
            };
            true
        }
        "token_delete" | "token_duplicate" | "token_swap" => {
            let els = elements(toks);
            if els.is_empty() {
                return false;
            }
            let i = rng.usize(0, els.len() - 1);
            let (s, e) = els[i];
            match kind {
                "token_delete" => {
                    b.drain(s..e);
                }
                "token_duplicate" => {
                    let chunk = b[s..e].to_vec();
                    b.splice(e..e, chunk);
                }
                _ => {
                    if i + 1 >= els.len() {
                        return false;
                    }
                    let (s2, e2) = els[i + 1];
                    if s2 != e {
                        return false;
                    }
                    let a = b[s..e].to_vec();
                    let c = b[s2..e2].to_vec();
                    let mut joined = c;
                    joined.extend(a);
                    b.splice(s..e2, joined);
                }
            }
            true
        }
        "splice_other_message" => {
            let els = elements(&other.toks);
            if els.is_empty() {
                return false;
            }
            let (s, e) = *rng.pick(&els);
            let at_choices: Vec<usize> = toks.iter().filter(|t| matches!(t.class, TokClass::ValueTag | TokClass::Delim | TokClass::EndTag)).map(|t| t.start).collect();
            if at_choices.is_empty() {
                return false;
            }
            let at = *rng.pick(&at_choices);
            b.splice(at..at, other.bytes[s..e].to_vec());
            true
        }
        "collection_imbalance" => {
            let begs: Vec<Tok> = toks.iter().copied().filter(|t| t.class == TokClass::ValueTag && b[t.start] == 0x34).collect();
            let ends: Vec<Tok> = toks.iter().copied().filter(|t| t.class == TokClass::ValueTag && b[t.start] == 0x37).collect();
            match rng.below(3) {
                0 if !ends.is_empty() => {
                    let t = *rng.pick(&ends);
                    b.drain(t.start..(t.start + 5).min(b.len()));
                    true
                }
                1 if !begs.is_empty() => {
                    let t = *rng.pick(&begs);
                    b.splice(t.start..t.start, vec![0x34, 0, 0, 0, 0]);
                    true
                }
                _ => {
                    // stray end-collection / member name outside any collection
                    let tags = toks_of(toks, TokClass::ValueTag);
                    let at = if tags.is_empty() { 8.min(b.len()) } else { rng.pick(&tags).start };
                    let stray = if rng.chance(1, 2) { vec![0x37, 0, 0, 0, 0] } else { vec![0x4a, 0, 0, 0, 1, b'x'] };
                    b.splice(at..at, stray);
                    true
                }
            }
        }
        "insert_garbage" => {
            let at = rng.usize(0, b.len());
            let n = rng.usize(1, 6);
            let g = rng.bytes(n);
            b.splice(at..at, g);
            true
        }
        _ => false,
    }
}

/// Swarm: a random subset of kinds is enabled per run; 1..3 damages are applied. Returns the kinds that fired.
pub fn damage(rng: &mut Rng, enc: &Encoded, other: &Encoded) -> (Vec<u8>, Vec<&'static str>) {
    let mut enabled: Vec<&'static str> = KINDS.iter().copied().filter(|_| rng.chance(1, 3)).collect();
    if enabled.is_empty() {
        enabled.push(*rng.pick(&KINDS));
    }
    let mut b = enc.bytes.clone();
    let mut fired = Vec::new();
    let n = rng.usize(1, 3);
    let mut toks = enc.toks.clone();
    for _ in 0..n {
        let k = *rng.pick(&enabled);
        if apply(k, rng, &mut b, &toks, other) {
            fired.push(k);
            // offsets moved: re-scan what can still be cut out for the next damage
            let (_, _, t2, _) = crate::refcodec::scan(&b);
            toks = t2;
        }
        if b.is_empty() {
            break;
        }
    }
    (b, fired)
}
