//! Drive the real parsers (blocking and async front ends) over simulated sources and collect what they did.

use std::{
    io::{Cursor, Read},
    sync::Arc,
};

use futures_util::io::{AsyncRead, AsyncReadExt};
use ipp::parser::{AsyncIppParser, IppParser};
use serde::{Deserialize, Serialize};

use crate::{
    exec::{run_scripted, ExecStats, ExecViolation},
    outcome::{self, canon, from_err, guarded, Outcome},
    wire::{ErrKind, SimCore, SrcHandle},
};

#[derive(Clone, Copy, Debug, PartialEq, Eq, Serialize, Deserialize)]
pub enum Mode {
    SyncParse,
    SyncParts,
    AsyncParse,
    AsyncParts,
}

impl Mode {
    pub const ALL: [Mode; 4] = [Mode::SyncParse, Mode::SyncParts, Mode::AsyncParse, Mode::AsyncParts];
    pub fn is_async(self) -> bool {
        matches!(self, Mode::AsyncParse | Mode::AsyncParts)
    }
    pub fn name(self) -> &'static str {
        match self {
            Mode::SyncParse => "sync_parse",
            Mode::SyncParts => "sync_parts",
            Mode::AsyncParse => "async_parse",
            Mode::AsyncParts => "async_parts",
        }
    }
}

#[derive(Debug, Clone)]
pub struct Drained {
    pub bytes: Vec<u8>,
    pub err: Option<ErrKind>,
    pub reads: u64,
    pub eintr_retried: u64,
    /// reads after the first Ok(0) that again returned Ok(0)
    pub eof_confirmed: u64,
    /// a read after EOF returned data or an error
    pub eof_violated: bool,
}

pub fn drain_sync<R: Read>(r: &mut R, sizes: &[u32], cap: usize) -> Drained {
    let mut d = Drained { bytes: Vec::new(), err: None, reads: 0, eintr_retried: 0, eof_confirmed: 0, eof_violated: false };
    let mut i = 0usize;
    let mut data_reads = 0u64;
    let vectored = QUIRK.with(|q| q.get()) == QUIRK_VECTORED;
    loop {
        // Interrupted results are legal no-progress steps (bounded by the source's trace, at most a few thousand);
        // a stream is judged runaway only when it keeps producing data or more EINTRs than any trace can hold
        if data_reads > 64 + cap as u64 || d.eintr_retried > 1_000_000 {
            d.err = Some(ErrKind::Unknown);
            return d;
        }
        let sz = if sizes.is_empty() { 8192 } else { sizes[i % sizes.len()].max(1) as usize };
        i += 1;
        let mut buf = vec![0u8; sz];
        d.reads += 1;
        let res = if vectored { read_vectored_sync(r, &mut buf, i) } else { r.read(&mut buf) };
        match res {
            Ok(0) => break,
            Ok(n) => {
                data_reads += 1;
                d.bytes.extend_from_slice(&buf[..n])
            }
            Err(e) if e.kind() == std::io::ErrorKind::Interrupted => d.eintr_retried += 1,
            Err(e) => {
                d.err = Some(ErrKind::from_io(e.kind()));
                return d;
            }
        }
        if d.bytes.len() > cap {
            d.err = Some(ErrKind::Unknown);
            return d;
        }
    }
    // sticky EOF: the next reads also report end of stream
    let mut tries = 0;
    while d.eof_confirmed < 3 && tries < 8192 {
        tries += 1;
        let mut buf = [0u8; 16];
        match r.read(&mut buf) {
            Ok(0) => d.eof_confirmed += 1,
            Err(e) if e.kind() == std::io::ErrorKind::Interrupted => d.eintr_retried += 1,
            _ => {
                d.eof_violated = true;
                break;
            }
        }
    }
    d
}

pub async fn drain_async<R: AsyncRead + Unpin>(r: &mut R, sizes: &[u32], cap: usize) -> Drained {
    let mut d = Drained { bytes: Vec::new(), err: None, reads: 0, eintr_retried: 0, eof_confirmed: 0, eof_violated: false };
    let mut i = 0usize;
    let vectored = QUIRK.with(|q| q.get()) == QUIRK_VECTORED;
    loop {
        let sz = if sizes.is_empty() { 8192 } else { sizes[i % sizes.len()].max(1) as usize };
        i += 1;
        let mut buf = vec![0u8; sz];
        d.reads += 1;
        let res = if vectored { read_vectored_async(r, &mut buf, i).await } else { r.read(&mut buf).await };
        match res {
            Ok(0) => break,
            Ok(n) => d.bytes.extend_from_slice(&buf[..n]),
            Err(e) => {
                d.err = Some(ErrKind::from_io(e.kind()));
                return d;
            }
        }
        if d.bytes.len() > cap {
            d.err = Some(ErrKind::Unknown);
            return d;
        }
    }
    for _ in 0..3 {
        let mut buf = [0u8; 16];
        match r.read(&mut buf).await {
            Ok(0) => d.eof_confirmed += 1,
            _ => {
                d.eof_violated = true;
                break;
            }
        }
    }
    d
}

/// consumer quirks (how the caller reads the payload), set by the property around run_parser_opt
pub const QUIRK_NONE: u8 = 0;
/// every read is a vectored read into two or three buffers (first one short)
pub const QUIRK_VECTORED: u8 = 1;
/// cross-payload runs: the first reads go through one interface of the IppPayload, the rest through the other
pub const QUIRK_MIXED: u8 = 2;
/// blocking reads of an async-parsed payload: after the first read the response moves to another OS thread
pub const QUIRK_HANDOVER: u8 = 3;

thread_local! {
    pub static QUIRK: std::cell::Cell<u8> = const { std::cell::Cell::new(0) };
}

/// split a buffer of `sz` bytes into the slices of one vectored read: a short first buffer, then the rest in one or two
pub fn vec_split(sz: usize, i: usize) -> Vec<usize> {
    if sz < 2 {
        return vec![sz];
    }
    let first = [1usize, 2, 7, sz / 2][i % 4].clamp(1, sz - 1);
    let rest = sz - first;
    if rest >= 2 && i % 3 == 0 {
        vec![first, rest / 2, rest - rest / 2]
    } else {
        vec![first, rest]
    }
}

pub fn read_vectored_sync<R: Read>(r: &mut R, buf: &mut [u8], i: usize) -> std::io::Result<usize> {
    let parts = vec_split(buf.len(), i);
    let mut slices: Vec<std::io::IoSliceMut<'_>> = Vec::new();
    let mut rest = buf;
    for p in parts {
        let (a, b) = rest.split_at_mut(p);
        slices.push(std::io::IoSliceMut::new(a));
        rest = b;
    }
    r.read_vectored(&mut slices)
}

pub async fn read_vectored_async<R: AsyncRead + Unpin>(r: &mut R, buf: &mut [u8], i: usize) -> std::io::Result<usize> {
    let parts = vec_split(buf.len(), i);
    let mut slices: Vec<std::io::IoSliceMut<'_>> = Vec::new();
    let mut rest = buf;
    for p in parts {
        let (a, b) = rest.split_at_mut(p);
        slices.push(std::io::IoSliceMut::new(a));
        rest = b;
    }
    r.read_vectored(&mut slices).await
}

thread_local! {
    /// read the payload of parse() through the *other* interface (blocking parse -> AsyncRead via AllowStdIo on the
    /// scripted executor; async parse -> blocking Read via block_on). Set by the caller around run_parser_opt.
    pub static CROSS_PAYLOAD: std::cell::Cell<bool> = const { std::cell::Cell::new(false) };
}

/// up to two small blocking reads (Interrupted retried); returns the bytes and whether end-of-stream or an error was met
fn few_blocking_reads<R: Read>(r: &mut R, sizes: &[u32]) -> (Vec<u8>, bool, Option<ErrKind>) {
    let mut got = Vec::new();
    let mut eintr = 0u32;
    let mut k = 0usize;
    while k < 2 {
        let sz = if sizes.is_empty() { 5 } else { (sizes[k % sizes.len()].max(1) as usize).min(4095) };
        let mut buf = vec![0u8; sz];
        match r.read(&mut buf) {
            Ok(0) => return (got, true, None),
            Ok(n) => {
                got.extend_from_slice(&buf[..n]);
                k += 1;
            }
            Err(e) if e.kind() == std::io::ErrorKind::Interrupted && eintr < 1_000_000 => eintr += 1,
            Err(e) => return (got, true, Some(ErrKind::from_io(e.kind()))),
        }
    }
    (got, false, None)
}

fn prepend(first: Vec<u8>, mut d: Drained) -> Drained {
    let mut all = first;
    all.extend_from_slice(&d.bytes);
    d.bytes = all;
    d
}

pub struct ParseRun {
    pub outcome: Outcome,
    /// source counter at the instant parse / parse_parts returned
    pub consumed_at_return: usize,
    pub payload: Option<Drained>,
    pub exec: ExecStats,
    pub exec_violation: Option<ExecViolation>,
}

/// Reference: the blocking parser on an always-ready, never-failing, unfragmented cursor over the same bytes.
pub fn reference(all: &[u8]) -> (Outcome, Option<Vec<u8>>) {
    let data = all.to_vec();
    match guarded(move || IppParser::new(Cursor::new(data)).parse()) {
        Err(p) => (Outcome::Panic(p), None),
        Ok(Err(e)) => (from_err(&e), None),
        Ok(Ok(mut resp)) => {
            let c = canon(resp.header(), resp.attributes());
            let mut rest = Vec::new();
            let _ = std::io::Read::read_to_end(resp.payload_mut(), &mut rest);
            (Outcome::Ok(c), Some(rest))
        }
    }
}

/// Run one parser front end over the simulated source and then read the payload through the interface that
/// front end hands back (blocking `Read` for the blocking parser, `AsyncRead` under the scripted executor for the
/// async parser). `read_payload=false` skips the payload phase.
pub fn run_parser(
    core: &Arc<SimCore>,
    src: &SrcHandle,
    mode: Mode,
    max_polls: u64,
    read_payload: bool,
    sizes: &[u32],
    cap: usize,
) -> ParseRun {
    run_parser_opt(core, src, mode, max_polls, read_payload, sizes, cap, false)
}

/// `parts_into_payload`: after parse_parts, read the rest through `reader.into_payload()` (an IppPayload) instead of
/// `reader.into_inner()` (the raw source)
#[allow(clippy::too_many_arguments)]
pub fn run_parser_opt(
    core: &Arc<SimCore>,
    src: &SrcHandle,
    mode: Mode,
    max_polls: u64,
    read_payload: bool,
    sizes: &[u32],
    cap: usize,
    parts_into_payload: bool,
) -> ParseRun {
    let mut out = ParseRun {
        outcome: Outcome::Panic("unset".into()),
        consumed_at_return: 0,
        payload: None,
        exec: ExecStats::default(),
        exec_violation: None,
    };
    match mode {
        Mode::SyncParse => {
            let rd = src.reader();
            match guarded(move || IppParser::new(rd).parse()) {
                Err(p) => {
                    out.consumed_at_return = src.handed_out();
                    out.outcome = Outcome::Panic(p)
                }
                Ok(Err(e)) => {
                    out.consumed_at_return = src.handed_out();
                    out.outcome = from_err(&e)
                }
                Ok(Ok(mut resp)) => {
                    out.consumed_at_return = src.handed_out();
                    out.outcome = Outcome::Ok(canon(resp.header(), resp.attributes()));
                    if read_payload && CROSS_PAYLOAD.with(|c| c.get()) {
                        // blocking-parsed payload consumed through the AsyncRead side
                        let core2 = core.clone();
                        let sizes2 = sizes.to_vec();
                        let mixed = QUIRK.with(|q| q.get()) == QUIRK_MIXED;
                        match guarded(move || {
                            let (first, done, err) = if mixed { few_blocking_reads(resp.payload_mut(), &sizes2) } else { (Vec::new(), false, None) };
                            if done {
                                let d = Drained { bytes: first, err, reads: 2, eintr_retried: 0, eof_confirmed: 3, eof_violated: false };
                                return (Ok(d), ExecStats::default());
                            }
                            let fut = async move { drain_async(resp.payload_mut(), &sizes2, cap).await };
                            let (r, st) = run_scripted(&core2, fut, max_polls.max(64) + 4 * cap as u64);
                            (r.map(|d| prepend(first, d)), st)
                        }) {
                            Ok((Ok(d), st)) => {
                                out.exec = st;
                                out.payload = Some(d)
                            }
                            Ok((Err(v), st)) => {
                                out.exec = st;
                                out.exec_violation = Some(v)
                            }
                            Err(p) => out.outcome = Outcome::Panic(format!("payload read: {p}")),
                        }
                    } else if read_payload {
                        match guarded(|| drain_sync(resp.payload_mut(), sizes, cap)) {
                            Ok(d) => out.payload = Some(d),
                            Err(p) => out.outcome = Outcome::Panic(format!("payload read: {p}")),
                        }
                    }
                }
            }
        }
        Mode::SyncParts => {
            let rd = src.reader();
            match guarded(move || IppParser::new(rd).parse_parts()) {
                Err(p) => {
                    out.consumed_at_return = src.handed_out();
                    out.outcome = Outcome::Panic(p)
                }
                Ok(Err(e)) => {
                    out.consumed_at_return = src.handed_out();
                    out.outcome = from_err(&e)
                }
                Ok(Ok((h, a, reader))) => {
                    out.consumed_at_return = src.handed_out();
                    out.outcome = Outcome::Ok(canon(&h, &a));
                    if read_payload {
                        let r = if parts_into_payload {
                            let mut pl = reader.into_payload();
                            guarded(|| drain_sync(&mut pl, sizes, cap))
                        } else {
                            let mut inner = reader.into_inner();
                            guarded(|| drain_sync(&mut inner, sizes, cap))
                        };
                        match r {
                            Ok(d) => out.payload = Some(d),
                            Err(p) => out.outcome = Outcome::Panic(format!("payload read: {p}")),
                        }
                    }
                }
            }
        }
        Mode::AsyncParse => {
            let rd = src.async_reader();
            let src2 = src.clone();
            let sizes = sizes.to_vec();
            let cross = CROSS_PAYLOAD.with(|c| c.get());
            let sizes_out = sizes.clone();
            let kept: std::rc::Rc<std::cell::RefCell<Option<ipp::request::IppRequestResponse>>> = Default::default();
            let kept2 = kept.clone();
            let fut = async move {
                let r = AsyncIppParser::new(rd).parse().await;
                let consumed = src2.handed_out();
                match r {
                    Err(e) => (from_err(&e), consumed, None),
                    Ok(mut resp) => {
                        let c = canon(resp.header(), resp.attributes());
                        let d = if read_payload && !cross { Some(drain_async(resp.payload_mut(), &sizes, cap).await) } else { None };
                        if read_payload && cross {
                            *kept2.borrow_mut() = Some(resp);
                        }
                        (Outcome::Ok(c), consumed, d)
                    }
                }
            };
            let core2 = core.clone();
            match guarded(move || run_scripted(&core2, fut, max_polls)) {
                Err(p) => {
                    out.consumed_at_return = src.handed_out();
                    out.outcome = Outcome::Panic(p)
                }
                Ok((Err(v), st)) => {
                    out.consumed_at_return = src.handed_out();
                    out.exec = st;
                    out.exec_violation = Some(v);
                    out.outcome = Outcome::Panic("executor violation".into());
                }
                Ok((Ok((o, consumed, d)), st)) => {
                    out.exec = st;
                    out.outcome = o;
                    out.consumed_at_return = consumed;
                    out.payload = d;
                    // async-parsed payload consumed through the blocking Read side (real block_on bridge)
                    if let Some(mut resp) = kept.borrow_mut().take() {
                        let quirk = QUIRK.with(|q| q.get());
                        if quirk == QUIRK_MIXED {
                            // first reads through the blocking side, the rest of the same payload through AsyncRead
                            let core3 = core.clone();
                            let sizes3 = sizes_out.clone();
                            match guarded(move || {
                                let (first, done, err) = few_blocking_reads(resp.payload_mut(), &sizes3);
                                if done {
                                    let d = Drained { bytes: first, err, reads: 2, eintr_retried: 0, eof_confirmed: 3, eof_violated: false };
                                    return (Ok(d), ExecStats::default());
                                }
                                let fut = async move { drain_async(resp.payload_mut(), &sizes3, cap).await };
                                let (r, st) = run_scripted(&core3, fut, max_polls.max(64) + 4 * cap as u64);
                                (r.map(|d| prepend(first, d)), st)
                            }) {
                                Ok((Ok(d), _)) => out.payload = Some(d),
                                Ok((Err(v), _)) => out.exec_violation = Some(v),
                                Err(p) => out.outcome = Outcome::Panic(format!("payload read: {p}")),
                            }
                        } else if quirk == QUIRK_HANDOVER {
                            // the first reads on this thread, then the response moves to another OS thread
                            let sizes3 = sizes_out.clone();
                            match guarded(move || {
                                let (first, done, err) = few_blocking_reads(resp.payload_mut(), &sizes3);
                                if done {
                                    return Ok(Drained { bytes: first, err, reads: 2, eintr_retried: 0, eof_confirmed: 3, eof_violated: false });
                                }
                                let (tx, rx) = std::sync::mpsc::channel();
                                std::thread::spawn(move || {
                                    let d = drain_sync(resp.payload_mut(), &sizes3, cap);
                                    let _ = tx.send(d);
                                });
                                match rx.recv_timeout(std::time::Duration::from_secs(30)) {
                                    Ok(d) => Ok(prepend(first, d)),
                                    Err(_) => Err("blocking payload read did not return within 30 s after the response moved to another thread".to_string()),
                                }
                            }) {
                                Ok(Ok(d)) => out.payload = Some(d),
                                Ok(Err(m)) => out.outcome = Outcome::Panic(format!("payload read: {m}")),
                                Err(p) => out.outcome = Outcome::Panic(format!("payload read: {p}")),
                            }
                        } else {
                            match guarded(|| drain_sync(resp.payload_mut(), &sizes_out, cap)) {
                                Ok(d) => out.payload = Some(d),
                                Err(p) => out.outcome = Outcome::Panic(format!("payload read: {p}")),
                            }
                        }
                    }
                }
            }
        }
        Mode::AsyncParts => {
            let rd = src.async_reader();
            let src2 = src.clone();
            let sizes = sizes.to_vec();
            let fut = async move {
                let r = AsyncIppParser::new(rd).parse_parts().await;
                let consumed = src2.handed_out();
                match r {
                    Err(e) => (from_err(&e), consumed, None),
                    Ok((h, a, reader)) => {
                        let c = canon(&h, &a);
                        let d = if read_payload {
                            if parts_into_payload {
                                let mut pl = reader.into_payload();
                                Some(drain_async(&mut pl, &sizes, cap).await)
                            } else {
                                let mut inner = reader.into_inner();
                                Some(drain_async(&mut inner, &sizes, cap).await)
                            }
                        } else {
                            None
                        };
                        (Outcome::Ok(c), consumed, d)
                    }
                }
            };
            let core2 = core.clone();
            match guarded(move || run_scripted(&core2, fut, max_polls)) {
                Err(p) => {
                    out.consumed_at_return = src.handed_out();
                    out.outcome = Outcome::Panic(p)
                }
                Ok((Err(v), st)) => {
                    out.consumed_at_return = src.handed_out();
                    out.exec = st;
                    out.exec_violation = Some(v);
                    out.outcome = Outcome::Panic("executor violation".into());
                }
                Ok((Ok((o, consumed, d)), st)) => {
                    out.exec = st;
                    out.outcome = o;
                    out.consumed_at_return = consumed;
                    out.payload = d;
                }
            }
        }
    }
    let _ = outcome::install_quiet_panic_hook;
    out
}
