//! Scripted single-threaded executor: a flag-setting waker, a tick clock, and three invariants —
//! bounded polls (liveness), no lost wake-up, no poll after Ready.

use std::{
    future::Future,
    pin::Pin,
    sync::{
        atomic::{AtomicBool, AtomicU64, Ordering},
        Arc,
    },
    task::{Context, Poll, Waker},
};

use serde::Serialize;

use crate::wire::{FlagWaker, SimCore};

#[derive(Debug, Clone, PartialEq, Eq, Serialize)]
pub enum ExecViolation {
    /// future returned Pending, nothing woke it and no wake is scheduled
    LostWake { polls: u64, tick: u64 },
    /// more polls than the step budget
    Livelock { polls: u64 },
}

#[derive(Debug, Clone, Default, Serialize)]
pub struct ExecStats {
    pub polls: u64,
    pub spurious_polls: u64,
    pub ticks: u64,
    pub wakes_fired: u64,
    pub migrated_polls: u64,
}

thread_local! {
    /// When set, every second poll of the future runs on a *fresh OS thread* (task migration, as under a
    /// multi-threaded runtime): state that the code under test keeps in thread-locals between polls is exposed.
    pub static MIGRATE: std::cell::Cell<bool> = const { std::cell::Cell::new(false) };
}

struct AssertSend<T>(T);
// SAFETY: used only for a strict hand-off — the owning thread blocks in `join` while the helper polls, so the
// future is never touched by two threads at once and the thread join provides the happens-before edges.
unsafe impl<T> Send for AssertSend<T> {}

fn poll_on_fresh_thread<F: Future>(fut: &mut Pin<Box<F>>, waker: &Waker) -> Poll<F::Output> {
    let p = AssertSend(fut as *mut Pin<Box<F>>);
    let w = waker.clone();
    let r = std::thread::scope(|s| {
        s.spawn(move || {
            let p = p;
            crate::hashseed::set_thread_seed(0x6d69_6772_6174_65);
            let fut: &mut Pin<Box<F>> = unsafe { &mut *p.0 };
            let mut cx = Context::from_waker(&w);
            AssertSend(fut.as_mut().poll(&mut cx))
        })
        .join()
    });
    match r {
        Ok(x) => x.0,
        Err(e) => std::panic::resume_unwind(e),
    }
}

pub fn run_scripted<F: Future>(core: &Arc<SimCore>, fut: F, max_polls: u64) -> (Result<F::Output, ExecViolation>, ExecStats) {
    let mut fut = Box::pin(fut);
    let flag = Arc::new(FlagWaker {
        woken: AtomicBool::new(true),
        wakes: AtomicU64::new(0),
    });
    let waker = Waker::from(flag.clone());
    let mut cx = Context::from_waker(&waker);
    let mut st = ExecStats::default();
    loop {
        let woken = flag.woken.swap(false, Ordering::SeqCst);
        let mut spurious = false;
        if !woken && core.spurious_budget.load(Ordering::SeqCst) > 0 {
            core.spurious_budget.fetch_sub(1, Ordering::SeqCst);
            spurious = true;
        }
        if woken || spurious {
            st.polls += 1;
            if spurious {
                st.spurious_polls += 1;
            }
            if st.polls > max_polls {
                return (Err(ExecViolation::Livelock { polls: st.polls }), st);
            }
            let polled = if MIGRATE.with(|m| m.get()) && st.polls % 2 == 0 {
                st.migrated_polls += 1;
                poll_on_fresh_thread(&mut fut, &waker)
            } else {
                Pin::as_mut(&mut fut).poll(&mut cx)
            };
            if let Poll::Ready(v) = polled {
                return (Ok(v), st);
            }
            if flag.woken.load(Ordering::SeqCst) {
                continue; // inline wake: poll again without advancing time
            }
        }
        // nothing runnable: advance simulated time
        if core.pending_wakes() == 0 {
            if core.spurious_budget.load(Ordering::SeqCst) > 0 {
                continue;
            }
            // cross-thread wakes are delivered by a helper thread; wait until it has delivered all of them
            // (token-based: the outcome does not depend on when it runs)
            let mut waited = false;
            while core.cross_done.load(Ordering::SeqCst) < core.cross_sent.load(Ordering::SeqCst) {
                waited = true;
                std::thread::yield_now();
            }
            if waited || flag.woken.load(Ordering::SeqCst) {
                if flag.woken.load(Ordering::SeqCst) {
                    continue;
                }
            }
            return (Err(ExecViolation::LostWake { polls: st.polls, tick: core.now() }), st);
        }
        if core.spurious_budget.load(Ordering::SeqCst) == 0 {
            core.jump_to_next_due();
        }
        st.ticks += 1;
        st.wakes_fired += core.advance() as u64;
    }
}
