//! Property-independent machinery: seeded batch runner (one fresh OS thread with seeded hash keys per run),
//! violation collection, delta-debugging shrinker, replay files, known findings, evidence files.

use std::{
    collections::{BTreeMap, HashSet},
    hash::{BuildHasherDefault, Hasher},
    path::{Path, PathBuf},
    time::Instant,
};

use serde::{de::DeserializeOwned, Deserialize, Serialize};
use serde_json::{json, Value};

use crate::{hashseed, outcome, rng::{mix, Rng}};

#[derive(Clone, Copy, Debug, PartialEq, Eq, Serialize, Deserialize)]
#[serde(rename_all = "lowercase")]
pub enum Tier {
    Quick,
    Thorough,
}

impl Tier {
    pub fn name(self) -> &'static str {
        match self {
            Tier::Quick => "quick",
            Tier::Thorough => "thorough",
        }
    }
}

#[derive(Clone, Debug, PartialEq, Eq, Serialize, Deserialize)]
pub struct Violation {
    /// stable class used by the shrinker and by known-findings signatures
    pub class: String,
    pub detail: String,
}

#[derive(Default)]
pub struct RunReport {
    pub violation: Option<Violation>,
    /// hash of the observed call/return sequence ("effective trace")
    pub trace_hash: u64,
    pub nontrivial: bool,
    pub counters: BTreeMap<String, u64>,
    /// full event log (record mode only)
    pub log: Option<Value>,
    /// for sweeping properties: a simpler case (serialised) that isolates the failing sub-run
    pub reduced: Option<Value>,
}

impl RunReport {
    pub fn count(&mut self, k: &str, n: u64) {
        if n > 0 {
            *self.counters.entry(k.to_string()).or_insert(0) += n;
        }
    }
    pub fn violate(&mut self, class: &str, detail: String) {
        if self.violation.is_none() {
            self.violation = Some(Violation { class: class.to_string(), detail });
        }
    }
}

pub trait Prop: Copy + Send + Sync + 'static {
    type Case: Serialize + DeserializeOwned + Clone + Send + Sync + 'static;
    fn id(&self) -> &'static str;
    fn level(&self) -> &'static str;
    fn default_runs(&self, tier: Tier) -> u64;
    fn gen(&self, rng: &mut Rng, tier: Tier, run: u64) -> Self::Case;
    /// Pure function of the case (and the thread's seeded hash keys). Draws nothing.
    fn run(&self, case: &Self::Case, record: bool) -> RunReport;
    /// strictly simpler candidates
    fn shrink(&self, case: &Self::Case) -> Vec<Self::Case>;
    fn rule(&self) -> String;
    fn assumptions(&self) -> Vec<String>;
    fn components(&self) -> Value;
    /// stack size of the run thread
    fn stack_size(&self) -> usize {
        2 * 1024 * 1024
    }
    /// true: a run may kill its process (stack overflow, abort), so the parent never executes a case itself
    fn isolated(&self) -> bool {
        false
    }
    /// run indices written out as samples in the evidence
    fn sample_runs(&self, _tier: Tier) -> Vec<u64> {
        vec![0, 1, 2]
    }
    /// extra top-level coverage keys derived from merged counters
    fn extra_coverage(&self, _counters: &BTreeMap<String, u64>) -> Value {
        json!({})
    }
}

#[derive(Clone, Serialize, Deserialize)]
pub struct Envelope<C> {
    pub format: String,
    pub property: String,
    pub tier: Tier,
    pub seed: u64,
    pub run: u64,
    pub hash_seed: u64,
    pub case: C,
    #[serde(default)]
    pub violation: Option<Violation>,
    #[serde(default)]
    pub minimised: bool,
    #[serde(default)]
    pub shrink_steps: u64,
}

pub const FORMAT: &str = "ippsim-replay-1";
const HASH_LABEL: u64 = 0x6861_7368; // "hash"

/// Execute one case on a fresh OS thread whose HashMap keys are a function of `hash_seed` only.
/// A wall-clock watchdog (default 240 s for a run that takes microseconds to, for the largest bombs, a few seconds) turns a run that never
/// returns (deadlocked bridge, lost wake-up under a real `block_on`, infinite loop) into a reported violation
/// instead of a hung check; the stuck thread is abandoned.
pub fn execute<P: Prop>(prop: &P, hash_seed: u64, case: &P::Case, record: bool) -> RunReport {
    let prop = *prop;
    let case = case.clone();
    let (tx, rx) = std::sync::mpsc::channel::<RunReport>();
    let stack = prop.stack_size();
    std::thread::Builder::new()
        .name("sim-run".into())
        .stack_size(stack)
        .spawn(move || {
            hashseed::set_thread_seed(hash_seed);
            // configuration axis: a logger is installed and its level is a function of the run (half of the runs
            // evaluate every trace!/error! argument inside the code under test, half evaluate none)
            crate::logger::set_for_run(hash_seed);
            let r = match outcome::guarded(|| prop.run(&case, record)) {
                Ok(mut r) => {
                    r.count(&format!("config.log_level_{}", crate::logger::level_name()), 1);
                    r
                }
                Err(msg) => {
                    // a panic that escaped the property's own guards is a harness bug, reported as such
                    let mut r = RunReport::default();
                    r.violate("harness-panic", msg);
                    r
                }
            };
            let _ = tx.send(r);
        })
        .expect("spawn run thread");
    let secs = std::env::var("VERIF_WATCHDOG_S").ok().and_then(|v| v.parse().ok()).unwrap_or(240u64);
    match rx.recv_timeout(std::time::Duration::from_secs(secs)) {
        Ok(r) => r,
        Err(std::sync::mpsc::RecvTimeoutError::Timeout) => {
            let mut r = RunReport::default();
            r.violate("hang", format!("the run did not return within the {secs} s wall-clock watchdog (deadlock, lost wake-up or infinite loop)"));
            r
        }
        Err(std::sync::mpsc::RecvTimeoutError::Disconnected) => {
            let mut r = RunReport::default();
            r.violate("harness-panic", "run thread died without a report".into());
            r
        }
    }
}

/// Execute in a throw-away child process (`ippsim exec1`): used by the parent for properties whose runs may kill
/// the process. A child killed by a signal becomes a `process-died:<signal>` violation of that case.
pub fn execute_isolated<P: Prop>(prop: &P, hash_seed: u64, case: &P::Case, record: bool) -> RunReport {
    static N: std::sync::atomic::AtomicU64 = std::sync::atomic::AtomicU64::new(0);
    let n = N.fetch_add(1, std::sync::atomic::Ordering::SeqCst);
    let dir = verif_root().join("work").join(format!("exec1-{}", std::process::id()));
    let _ = std::fs::create_dir_all(&dir);
    let path = dir.join(format!("case-{n}.json"));
    let env = Envelope {
        format: FORMAT.to_string(),
        property: prop.id().to_string(),
        tier: Tier::Quick,
        seed: 0,
        run: 0,
        hash_seed,
        case: case.clone(),
        violation: None,
        minimised: false,
        shrink_steps: 0,
    };
    std::fs::write(&path, serde_json::to_vec(&env).expect("envelope")).expect("write case");
    let out = std::process::Command::new(std::env::current_exe().expect("exe"))
        .arg("exec1")
        .arg(prop.id())
        .arg(&path)
        .arg(if record { "record" } else { "quiet" })
        .stdin(std::process::Stdio::null())
        .stderr(std::process::Stdio::null())
        .output()
        .expect("spawn exec1");
    let _ = std::fs::remove_file(&path);
    let mut r = RunReport::default();
    if !out.status.success() {
        let class = format!("process-died:{}", signal_name(&out.status));
        r.violate(&class, format!("the isolated process executing this case was killed ({class})"));
        return r;
    }
    let v: Value = serde_json::from_slice(&out.stdout).unwrap_or(Value::Null);
    if let Some(viol) = v.get("violation").filter(|x| !x.is_null()) {
        r.violation = serde_json::from_value(viol.clone()).ok();
    }
    r.trace_hash = v.get("trace_hash").and_then(|x| x.as_u64()).unwrap_or(0);
    r.nontrivial = v.get("nontrivial").and_then(|x| x.as_bool()).unwrap_or(false);
    r.reduced = v.get("reduced").filter(|x| !x.is_null()).cloned();
    r.log = v.get("log").filter(|x| !x.is_null()).cloned();
    r
}

pub fn exec1_entry<P: Prop>(prop: &P, path: &Path, record: bool) -> i32 {
    let env: Envelope<P::Case> = match read_replay(path) {
        Ok(e) => e,
        Err(e) => {
            eprintln!("harness error: {e}");
            return 2;
        }
    };
    let rep = execute(prop, env.hash_seed, &env.case, record);
    let doc = json!({"violation": rep.violation, "trace_hash": rep.trace_hash, "nontrivial": rep.nontrivial, "reduced": rep.reduced, "log": rep.log});
    println!("{}", serde_json::to_string(&doc).unwrap());
    0
}

pub fn execute_any<P: Prop>(prop: &P, hash_seed: u64, case: &P::Case, record: bool) -> RunReport {
    if prop.isolated() {
        execute_isolated(prop, hash_seed, case, record)
    } else {
        execute(prop, hash_seed, case, record)
    }
}

#[derive(Default)]
struct IdHasher(u64);
impl Hasher for IdHasher {
    fn finish(&self) -> u64 {
        self.0
    }
    fn write(&mut self, b: &[u8]) {
        for &x in b {
            self.0 = (self.0 << 8) | x as u64;
        }
    }
    fn write_u64(&mut self, v: u64) {
        self.0 = v;
    }
}
type IdSet = HashSet<u64, BuildHasherDefault<IdHasher>>;

pub struct BatchResult<C> {
    pub runs: u64,
    pub counters: BTreeMap<String, u64>,
    pub distinct_nontrivial: u64,
    pub distinct_all: u64,
    pub violations: Vec<(u64, Envelope<C>)>,
    pub samples: Vec<Value>,
    pub wall_s: f64,
    pub digest: u64,
}

#[derive(Clone)]
pub struct BatchCfg {
    pub seed: u64,
    pub tier: Tier,
    pub runs: u64,
    /// number of worker *processes* (thread creation serialises inside one process)
    pub workers: usize,
    pub from: u64,
    /// keep a digest of every run's (trace_hash, violation class, counters) for determinism diffs
    pub digest: bool,
    pub sample_runs: Vec<u64>,
    /// violation classes listed as open known findings: recorded, but they do not stop the batch
    pub known_classes: Vec<String>,
}

pub fn make_case<P: Prop>(prop: &P, seed: u64, tier: Tier, i: u64) -> (P::Case, u64) {
    let run_seed = mix(seed, i);
    let mut rng = Rng::new(run_seed);
    let case = prop.gen(&mut rng, tier, i);
    (case, mix(run_seed, HASH_LABEL))
}

#[derive(Serialize, Deserialize)]
struct Part {
    done: u64,
    counters: BTreeMap<String, u64>,
    violations: Vec<(u64, Value)>,
    samples: Vec<(u64, Value)>,
    digest: u64,
    n_nontrivial: u64,
    n_all: u64,
}

/// Child side: runs i in [start, end) with i % stride == slot, in increasing order, one fresh thread per run.
/// Stops at its first violation of a class that is not an open known finding (everything below it in this slice
/// has completed, so the lowest violating index over all slices is deterministic).
pub fn worker_main<P: Prop>(prop: &P, cfg: &BatchCfg, slot: u64, stride: u64, start: u64, out_prefix: &Path) -> i32 {
    let end = cfg.from + cfg.runs;
    let mut counters: BTreeMap<String, u64> = BTreeMap::new();
    let mut nontrivial = IdSet::default();
    let mut all = IdSet::default();
    let mut violations: BTreeMap<String, (u64, Value)> = BTreeMap::new();
    let mut samples = Vec::new();
    let mut digest = 0u64;
    let mut done = 0u64;
    let progress_path = PathBuf::from(format!("{}.progress", out_prefix.display()));
    let mut i = start;
    while i % stride != slot {
        i += 1;
    }
    use std::io::{Seek, SeekFrom, Write};
    let mut progress = std::fs::File::create(&progress_path).expect("progress file");
    while i < end {
        let _ = progress.seek(SeekFrom::Start(0));
        let _ = progress.write_all(&i.to_le_bytes());
        let (case, hash_seed) = make_case(prop, cfg.seed, cfg.tier, i);
        let want_sample = cfg.sample_runs.contains(&i);
        let rep = execute(prop, hash_seed, &case, want_sample);
        done += 1;
        for (k, v) in &rep.counters {
            *counters.entry(k.clone()).or_insert(0) += v;
        }
        all.insert(rep.trace_hash);
        if rep.nontrivial {
            nontrivial.insert(rep.trace_hash);
        }
        if cfg.digest {
            let mut f = crate::rng::Fnv::default();
            f.u64(i);
            f.u64(rep.trace_hash);
            f.u64(rep.nontrivial as u64);
            if let Some(v) = &rep.violation {
                f.bytes(v.class.as_bytes());
            }
            for (k, v) in &rep.counters {
                f.bytes(k.as_bytes());
                f.u64(*v);
            }
            digest ^= f.finish(); // order-independent combination
        }
        if want_sample {
            samples.push((
                i,
                json!({
                    "run": i,
                    "case": serde_json::to_value(&case).unwrap_or(Value::Null),
                    "observed": rep.log.clone().unwrap_or(Value::Null),
                    "violation": rep.violation.as_ref().map(|v| v.class.clone()),
                }),
            ));
        }
        if let Some(v) = rep.violation {
            let known = cfg.known_classes.contains(&v.class);
            if !violations.contains_key(&v.class) {
                let env = Envelope {
                    format: FORMAT.to_string(),
                    property: prop.id().to_string(),
                    tier: cfg.tier,
                    seed: cfg.seed,
                    run: i,
                    hash_seed,
                    case,
                    violation: Some(v.clone()),
                    minimised: false,
                    shrink_steps: 0,
                };
                violations.insert(v.class.clone(), (i, serde_json::to_value(&env).expect("envelope")));
            }
            if !known {
                break;
            }
        }
        i += stride;
    }
    // hashes: binary u64 LE, nontrivial set then the rest
    let mut hb: Vec<u8> = Vec::with_capacity((all.len() + nontrivial.len()) * 8);
    for h in &nontrivial {
        hb.extend_from_slice(&h.to_le_bytes());
    }
    for h in &all {
        hb.extend_from_slice(&h.to_le_bytes());
    }
    std::fs::write(format!("{}.hashes", out_prefix.display()), hb).expect("write hashes");
    let part = Part {
        done,
        counters,
        violations: violations.into_values().collect(),
        samples,
        digest,
        n_nontrivial: nontrivial.len() as u64,
        n_all: all.len() as u64,
    };
    std::fs::write(format!("{}.json", out_prefix.display()), serde_json::to_vec(&part).unwrap()).expect("write part");
    0
}

fn signal_name(status: &std::process::ExitStatus) -> String {
    use std::os::unix::process::ExitStatusExt;
    match status.signal() {
        Some(6) => "SIGABRT".into(),
        Some(11) => "SIGSEGV".into(),
        Some(9) => "SIGKILL".into(),
        Some(7) => "SIGBUS".into(),
        Some(4) => "SIGILL".into(),
        Some(n) => format!("signal{n}"),
        None => format!("exit{}", status.code().unwrap_or(-1)),
    }
}

/// Parent side: W child processes, each a strided slice. A child killed by a signal (stack overflow, abort) is a
/// *finding about the run it was executing* (read from its progress file), never a harness crash.
pub fn run_batch<P: Prop>(prop: &P, cfg: &BatchCfg) -> BatchResult<P::Case> {
    let t0 = Instant::now();
    let exe = std::env::current_exe().expect("current_exe");
    let work = verif_root().join("work").join(format!("{}-{}-{}", prop.id(), std::process::id(), cfg.seed));
    let _ = std::fs::remove_dir_all(&work);
    std::fs::create_dir_all(&work).expect("work dir");
    let stride = (cfg.workers.max(1) as u64).min(cfg.runs.max(1));
    let cfg_path = work.join("cfg.json");
    std::fs::write(
        &cfg_path,
        serde_json::to_vec(&json!({
            "seed": cfg.seed, "tier": cfg.tier, "runs": cfg.runs, "from": cfg.from, "digest": cfg.digest,
            "sample_runs": cfg.sample_runs, "known_classes": cfg.known_classes,
        }))
        .unwrap(),
    )
    .unwrap();

    struct SlotOut {
        parts: Vec<PathBuf>,
        crashes: Vec<(u64, String)>,
    }
    let slots: Vec<SlotOut> = std::thread::scope(|s| {
        let handles: Vec<_> = (0..stride)
            .map(|slot| {
                let exe = exe.clone();
                let work = work.clone();
                let cfg_path = cfg_path.clone();
                let known = cfg.known_classes.clone();
                let from = cfg.from;
                let end = cfg.from + cfg.runs;
                let id = prop.id();
                s.spawn(move || {
                    let mut out = SlotOut { parts: Vec::new(), crashes: Vec::new() };
                    let mut start = from;
                    let mut gen = 0;
                    loop {
                        let prefix = work.join(format!("part-{slot}-{gen}"));
                        let status = std::process::Command::new(&exe)
                            .arg("worker")
                            .arg(id)
                            .arg(&cfg_path)
                            .arg(slot.to_string())
                            .arg(stride.to_string())
                            .arg(start.to_string())
                            .arg(&prefix)
                            .stdin(std::process::Stdio::null())
                            .status()
                            .expect("spawn worker");
                        if status.success() {
                            out.parts.push(prefix);
                            break;
                        }
                        // the child died: which run was it executing?
                        let pb = std::fs::read(format!("{}.progress", prefix.display())).unwrap_or_default();
                        if pb.len() < 8 {
                            eprintln!("harness error: worker {slot} died ({}) before its first run", signal_name(&status));
                            std::process::exit(2);
                        }
                        let i = u64::from_le_bytes(pb[..8].try_into().unwrap());
                        let class = format!("process-died:{}", signal_name(&status));
                        let is_known = known.contains(&class);
                        out.crashes.push((i, class));
                        // counters of the dead child are lost (stated in evidence); continue after the fatal run
                        start = i + 1;
                        gen += 1;
                        if !is_known || start >= end || gen > 64 {
                            break;
                        }
                    }
                    out
                })
            })
            .collect();
        handles.into_iter().map(|h| h.join().expect("slot thread")).collect()
    });

    let mut counters: BTreeMap<String, u64> = BTreeMap::new();
    let mut nontrivial = IdSet::default();
    let mut all = IdSet::default();
    let mut best: BTreeMap<String, (u64, Envelope<P::Case>)> = BTreeMap::new();
    let mut samples: Vec<(u64, Value)> = Vec::new();
    let mut digest = 0u64;
    let mut done = 0u64;
    for so in &slots {
        for prefix in &so.parts {
            let part: Part = serde_json::from_slice(&std::fs::read(format!("{}.json", prefix.display())).expect("part file")).expect("part json");
            done += part.done;
            digest ^= part.digest;
            for (k, v) in part.counters {
                *counters.entry(k).or_insert(0) += v;
            }
            samples.extend(part.samples);
            for (i, envv) in part.violations {
                let env: Envelope<P::Case> = serde_json::from_value(envv).expect("envelope");
                let class = env.violation.as_ref().unwrap().class.clone();
                let replace = best.get(&class).map(|(j, _)| i < *j).unwrap_or(true);
                if replace {
                    best.insert(class, (i, env));
                }
            }
            let hb = std::fs::read(format!("{}.hashes", prefix.display())).expect("hashes");
            let mut it = hb.chunks_exact(8).map(|c| u64::from_le_bytes(c.try_into().unwrap()));
            for _ in 0..part.n_nontrivial {
                nontrivial.insert(it.next().unwrap());
            }
            for _ in 0..part.n_all {
                all.insert(it.next().unwrap());
            }
        }
        for (i, class) in &so.crashes {
            done += 1;
            *counters.entry(format!("child_died.{class}")).or_insert(0) += 1;
            let (case, hash_seed) = make_case(prop, cfg.seed, cfg.tier, *i);
            let env = Envelope {
                format: FORMAT.to_string(),
                property: prop.id().to_string(),
                tier: cfg.tier,
                seed: cfg.seed,
                run: *i,
                hash_seed,
                case,
                violation: Some(Violation { class: class.clone(), detail: format!("the isolated worker process executing run {i} was killed ({class})") }),
                minimised: false,
                shrink_steps: 0,
            };
            let replace = best.get(class).map(|(j, _)| *i < *j).unwrap_or(true);
            if replace {
                best.insert(class.clone(), (*i, env));
            }
        }
    }
    let _ = std::fs::remove_dir_all(&work);
    let mut violations: Vec<(u64, Envelope<P::Case>)> = best.into_values().collect();
    violations.sort_by_key(|v| v.0);
    samples.sort_by_key(|s| s.0);
    BatchResult {
        runs: done,
        counters,
        distinct_nontrivial: nontrivial.len() as u64,
        distinct_all: all.len() as u64,
        violations,
        samples: samples.into_iter().map(|s| s.1).collect(),
        wall_s: t0.elapsed().as_secs_f64(),
        digest,
    }
}

pub fn worker_entry<P: Prop>(prop: &P, args: &[String]) -> i32 {
    // worker <ID> <cfg.json> <slot> <stride> <start> <out_prefix>
    let v: Value = serde_json::from_slice(&std::fs::read(&args[2]).expect("cfg")).expect("cfg json");
    let cfg = BatchCfg {
        seed: v["seed"].as_u64().unwrap(),
        tier: serde_json::from_value(v["tier"].clone()).unwrap(),
        runs: v["runs"].as_u64().unwrap(),
        workers: 1,
        from: v["from"].as_u64().unwrap(),
        digest: v["digest"].as_bool().unwrap(),
        sample_runs: serde_json::from_value(v["sample_runs"].clone()).unwrap(),
        known_classes: serde_json::from_value(v["known_classes"].clone()).unwrap(),
    };
    let slot: u64 = args[3].parse().unwrap();
    let stride: u64 = args[4].parse().unwrap();
    let start: u64 = args[5].parse().unwrap();
    worker_main(prop, &cfg, slot, stride, start, Path::new(&args[6]))
}

/// Greedy delta debugging: accept a candidate iff it still violates with the *same class*.
pub fn minimise<P: Prop>(prop: &P, env: &Envelope<P::Case>, budget: u64) -> Envelope<P::Case> {
    let class = match &env.violation {
        Some(v) => v.class.clone(),
        None => return env.clone(),
    };
    let mut best = env.clone();
    let mut steps = 0u64;
    let t0 = Instant::now();
    // isolated properties re-execute in a fresh process each time: keep the budget small
    let budget = if prop.isolated() { budget.min(120) } else { budget };
    if class == "hang" || std::env::var("VERIF_NO_SHRINK").is_ok() {
        // every re-execution of a hang would cost a watchdog period; reported unminimised
        return best;
    }
    // a sweeping property can name the failing sub-run directly
    let first = execute_any(prop, best.hash_seed, &best.case, false);
    if let Some(red) = first.reduced {
        if let Ok(c) = serde_json::from_value::<P::Case>(red) {
            steps += 1;
            let rep = execute_any(prop, best.hash_seed, &c, false);
            if let Some(v) = rep.violation {
                if v.class == class {
                    best.case = c;
                    best.violation = Some(v);
                }
            }
        }
    }
    'outer: loop {
        let cands = prop.shrink(&best.case);
        for c in cands {
            if steps >= budget || t0.elapsed().as_secs() > 90 {
                break 'outer;
            }
            steps += 1;
            let rep = execute_any(prop, best.hash_seed, &c, false);
            if let Some(v) = rep.violation {
                if v.class == class {
                    best.case = c;
                    best.violation = Some(v);
                    continue 'outer;
                }
            }
        }
        break;
    }
    best.minimised = true;
    best.shrink_steps = steps;
    best
}

pub fn verif_root() -> PathBuf {
    std::env::var("VERIF_ROOT").map(PathBuf::from).unwrap_or_else(|_| PathBuf::from("/verif"))
}

pub fn write_replay<C: Serialize>(env: &Envelope<C>, suffix: &str) -> PathBuf {
    let dir = verif_root().join("replays");
    let _ = std::fs::create_dir_all(&dir);
    let p = dir.join(format!("{}-seed{}-run{}{}.json", env.property, env.seed, env.run, suffix));
    std::fs::write(&p, serde_json::to_vec_pretty(env).expect("serialise replay")).expect("write replay");
    p
}

pub fn read_replay<C: DeserializeOwned>(p: &Path) -> Result<Envelope<C>, String> {
    let b = std::fs::read(p).map_err(|e| format!("{}: {e}", p.display()))?;
    serde_json::from_slice(&b).map_err(|e| format!("{}: {e}", p.display()))
}

// ---------------------------------------------------------------------------------------------------------------
// known findings

#[derive(Clone, Debug, Deserialize)]
pub struct Finding {
    pub property: String,
    /// "open" or "fixed"
    pub status: String,
    /// matched against `Violation.class` exactly (open findings only)
    #[serde(default)]
    pub signature: String,
    pub description: String,
    #[serde(default)]
    pub commit: String,
}

pub fn load_findings() -> Vec<Finding> {
    let p = verif_root().join("known-findings.json");
    match std::fs::read(&p) {
        Ok(b) => serde_json::from_slice::<Vec<Finding>>(&b).unwrap_or_else(|e| {
            eprintln!("harness error: {}: {e}", p.display());
            std::process::exit(2)
        }),
        Err(_) => Vec::new(),
    }
}

pub fn is_known(findings: &[Finding], property: &str, v: &Violation) -> Option<Finding> {
    findings
        .iter()
        .find(|f| f.property == property && f.status == "open" && f.signature == v.class)
        .cloned()
}

// ---------------------------------------------------------------------------------------------------------------
// evidence

pub struct EvidenceIn<'a> {
    pub property: &'a str,
    pub tier: Tier,
    pub seed: u64,
    pub level: &'a str,
    pub evaluations: u64,
    pub distinct_nontrivial: u64,
    pub distinct_all: u64,
    pub rule: String,
    pub samples: Vec<Value>,
    pub counters: &'a BTreeMap<String, u64>,
    pub extra: Value,
    pub assumptions: Vec<String>,
    pub components: Value,
    pub wall_s: f64,
    pub violations: u64,
    pub known_findings: Vec<String>,
    pub exhaustive: bool,
}

pub fn write_evidence(e: &EvidenceIn, path: &Path) {
    let mut cov = serde_json::Map::new();
    cov.insert("evaluations".into(), json!(e.evaluations));
    cov.insert("distinct_nontrivial".into(), json!(e.distinct_nontrivial));
    cov.insert("distinct_effective_traces_all".into(), json!(e.distinct_all));
    cov.insert("rule".into(), json!(e.rule));
    cov.insert("samples".into(), Value::Array(e.samples.clone()));
    cov.insert("exhaustive".into(), json!(e.exhaustive));
    cov.insert(
        "runs_per_hour".into(),
        json!(if e.wall_s > 0.0 { (e.evaluations as f64 / e.wall_s * 3600.0) as u64 } else { 0 }),
    );
    cov.insert(
        "simulated_time".into(),
        json!("tick-based: the code under test reads no clock; 'ticks'/'polls'/'events' counters below are the simulated steps covered"),
    );
    cov.insert("fired".into(), json!(e.counters));
    cov.insert(
        "configuration_axes".into(),
        json!(["HashMap hash keys: seeded per run (getrandom interposed), a fresh OS thread per run", "log level of an installed silent logger: off / error / trace as a function of the run seed (log-macro arguments inside the code under test are evaluated only when enabled); counts under fired.config.log_level_*"]),
    );
    cov.insert("components".into(), e.components.clone());
    cov.insert("known_findings_reported".into(), json!(e.known_findings));
    if let Value::Object(m) = &e.extra {
        for (k, v) in m {
            cov.insert(k.clone(), v.clone());
        }
    }
    let doc = json!({
        "property_id": e.property,
        "tier": e.tier.name(),
        "seed": e.seed,
        "level": e.level,
        "coverage": Value::Object(cov),
        "assumptions": e.assumptions,
        "wall_s": e.wall_s,
        "violations": e.violations,
    });
    if let Some(d) = path.parent() {
        let _ = std::fs::create_dir_all(d);
    }
    std::fs::write(path, serde_json::to_vec_pretty(&doc).unwrap()).expect("write evidence");
}

// ---------------------------------------------------------------------------------------------------------------
// the standard check driver

pub struct CheckOpts {
    pub tier: Tier,
    pub seed: u64,
    pub runs: Option<u64>,
    pub workers: usize,
    pub evidence: Option<PathBuf>,
}

/// returns the process exit code
pub fn standard_check<P: Prop>(prop: &P, o: &CheckOpts) -> i32 {
    let runs = o.runs.unwrap_or_else(|| prop.default_runs(o.tier));
    let findings = load_findings();
    let cfg = BatchCfg {
        seed: o.seed,
        tier: o.tier,
        runs,
        workers: o.workers,
        from: 0,
        digest: false,
        sample_runs: prop.sample_runs(o.tier),
        known_classes: findings
            .iter()
            .filter(|f| f.property == prop.id() && f.status == "open")
            .map(|f| f.signature.clone())
            .collect(),
    };
    println!("{}: tier={} seed={} runs={} workers={}", prop.id(), o.tier.name(), o.seed, runs, o.workers);
    let res = run_batch(prop, &cfg);
    let mut exit = 0;
    let mut known_lines = Vec::new();
    let mut new_violations = 0u64;
    // classify: report the lowest-index violation of each class (deterministic: all runs below it completed)
    let mut seen_classes: Vec<String> = Vec::new();
    for (_i, env) in &res.violations {
        let v = env.violation.as_ref().unwrap();
        if seen_classes.contains(&v.class) {
            continue;
        }
        seen_classes.push(v.class.clone());
        if let Some(f) = is_known(&findings, prop.id(), v) {
            let line = format!("KNOWN-FINDING: property={} {} [{}]", prop.id(), f.description, v.class);
            println!("{line}");
            known_lines.push(line);
            continue;
        }
        new_violations += 1;
        let raw = write_replay(env, "-raw");
        println!("  run {} violates: class={} — minimising", env.run, v.class);
        let (path, shown) = if v.class == "hang" {
            // neither minimised nor re-executed here: every execution costs a full watchdog period
            (raw.clone(), v.clone())
        } else {
            let min = if new_violations <= 3 { minimise(prop, env, 2000) } else { env.clone() };
            // replay the minimised file's case once more before reporting it
            let again = execute_any(prop, min.hash_seed, &min.case, false);
            match again.violation {
                Some(ref v2) if v2.class == v.class => (write_replay(&min, ""), min.violation.clone().unwrap()),
                _ => (raw.clone(), v.clone()),
            }
        };
        println!("  violation class={} detail={}", shown.class, shown.detail);
        println!("VIOLATION property={} replay={}", prop.id(), path.display());
        exit = 1;
    }
    println!(
        "{}: runs={} distinct_nontrivial={} distinct_all={} violations={} wall={:.1}s ({:.0} runs/s)",
        prop.id(),
        res.runs,
        res.distinct_nontrivial,
        res.distinct_all,
        new_violations,
        res.wall_s,
        res.runs as f64 / res.wall_s.max(1e-9)
    );
    let harness_failures: u64 = res.counters.iter().filter(|(k, _)| k.contains("harness_")).map(|(_, v)| *v).sum();
    if harness_failures > 0 && exit == 0 {
        eprintln!("harness error: {} runs could not be executed ({:?})", harness_failures, res.counters.iter().filter(|(k, _)| k.contains("harness_")).collect::<Vec<_>>());
        exit = 2;
    }
    let ev_path = o
        .evidence
        .clone()
        .unwrap_or_else(|| verif_root().join("evidence").join(format!("{}.json", prop.id())));
    write_evidence(
        &EvidenceIn {
            property: prop.id(),
            tier: o.tier,
            seed: o.seed,
            level: prop.level(),
            evaluations: res.runs,
            distinct_nontrivial: res.distinct_nontrivial,
            distinct_all: res.distinct_all,
            rule: prop.rule(),
            samples: res.samples.clone(),
            counters: &res.counters,
            extra: prop.extra_coverage(&res.counters),
            assumptions: prop.assumptions(),
            components: prop.components(),
            wall_s: res.wall_s,
            violations: new_violations,
            known_findings: known_lines,
            exhaustive: false,
        },
        &ev_path,
    );
    exit
}

pub fn standard_replay<P: Prop>(prop: &P, path: &Path) -> i32 {
    let env: Envelope<P::Case> = match read_replay(path) {
        Ok(e) => e,
        Err(e) => {
            eprintln!("harness error: {e}");
            return 2;
        }
    };
    let rep = execute_any(prop, env.hash_seed, &env.case, true);
    if let Some(log) = &rep.log {
        println!("{}", serde_json::to_string_pretty(log).unwrap());
    }
    match rep.violation {
        Some(v) => {
            println!("  violation class={} detail={}", v.class, v.detail);
            println!("VIOLATION property={} replay={}", prop.id(), path.display());
            1
        }
        None => {
            println!("{}: replay {} no longer reproduces", prop.id(), path.display());
            0
        }
    }
}

/// determinism self-check: the same seeds at several worker counts must give the same digest
pub fn determinism_check<P: Prop>(prop: &P, seed: u64, runs: u64) -> Result<u64, String> {
    let mut digests = Vec::new();
    for workers in [1usize, 4, 16] {
        for rep in 0..2 {
            let cfg = BatchCfg {
                seed,
                tier: Tier::Quick,
                runs,
                workers,
                from: 0,
                digest: true,
                sample_runs: vec![],
                known_classes: vec![],
            };
            let r = run_batch(prop, &cfg);
            if !r.violations.is_empty() {
                // violations are fine for determinism purposes as long as they are the same
            }
            digests.push((workers, rep, r.digest, r.distinct_all));
        }
    }
    let d0 = digests[0].2;
    if digests.iter().all(|d| d.2 == d0) {
        Ok(d0)
    } else {
        Err(format!("{}: digests differ across repetitions/worker counts: {:?}", prop.id(), digests))
    }
}

/// Shrinker soundness: on a tree where the property holds, no shrink candidate of a generated case may violate —
/// a candidate that does is an inconsistent case manufactured by the shrinker (a minimised replay built from it
/// would "reproduce" on correct code).
pub fn shrink_soundness<P: Prop>(prop: &P, seed: u64, cases: u64, per_case: usize) -> Result<u64, String> {
    let mut executed = 0u64;
    for i in 0..cases {
        let (case, hash_seed) = make_case(prop, seed, Tier::Quick, i);
        let mut level = vec![case];
        // two levels of shrinking
        for _depth in 0..2 {
            let mut next = Vec::new();
            for c in &level {
                for cand in prop.shrink(c).into_iter().take(per_case) {
                    let rep = execute_any(prop, hash_seed, &cand, false);
                    executed += 1;
                    if let Some(v) = rep.violation {
                        let env = Envelope { format: FORMAT.to_string(), property: prop.id().to_string(), tier: Tier::Quick, seed, run: i, hash_seed, case: cand, violation: Some(v.clone()), minimised: false, shrink_steps: 0 };
                        let p = write_replay(&env, "-shrink-unsound");
                        return Err(format!("{}: a shrink candidate of run {i} violates on this tree: {} ({}); case written to {}", prop.id(), v.class, v.detail, p.display()));
                    }
                    if next.len() < 3 {
                        next.push(cand);
                    }
                }
            }
            level = next;
        }
    }
    Ok(executed)
}
