//! Seeded generators: wire trees (RFC grammar), model messages (the crate's public value model), payloads and
//! delivery schedules. Everything here draws from the run's PRNG; nothing here runs code under test except the
//! crate's *encoder* when a model message is materialised.

use std::collections::BTreeMap;

use bytes::Bytes;
use ipp::prelude::*;
use serde::{Deserialize, Serialize};

use crate::{
    refcodec::{self, hexbytes, Tok, TokClass, WAttr, WGroup, WMember, WMsg, WVal},
    rng::Rng,
    wire::{Ev, Wake},
};

// ---------------------------------------------------------------------------------------------------------------
// model values (mirror of IppValue so that cases are serialisable)

#[derive(Clone, Debug, PartialEq, Serialize, Deserialize)]
pub enum MValue {
    Integer(i32),
    Enum(i32),
    OctetString(String),
    TextWithoutLanguage(String),
    NameWithoutLanguage(String),
    TextWithLanguage { language: String, text: String },
    NameWithLanguage { language: String, name: String },
    Charset(String),
    NaturalLanguage(String),
    Uri(String),
    UriScheme(String),
    RangeOfInteger { min: i32, max: i32 },
    Boolean(bool),
    Keyword(String),
    Array(Vec<MValue>),
    Collection(Vec<(String, MValue)>),
    MimeMediaType(String),
    DateTime([u8; 11]),
    MemberAttrName(String),
    Resolution { cross_feed: i32, feed: i32, units: i8 },
    NoValue,
    Other {
        tag: u8,
        #[serde(with = "hexbytes")]
        data: Vec<u8>,
    },
}

impl MValue {
    pub fn to_ipp(&self) -> IppValue {
        match self {
            MValue::Integer(i) => IppValue::Integer(*i),
            MValue::Enum(i) => IppValue::Enum(*i),
            MValue::OctetString(s) => IppValue::OctetString(s.clone()),
            MValue::TextWithoutLanguage(s) => IppValue::TextWithoutLanguage(s.clone()),
            MValue::NameWithoutLanguage(s) => IppValue::NameWithoutLanguage(s.clone()),
            MValue::TextWithLanguage { language, text } => IppValue::TextWithLanguage {
                language: language.clone(),
                text: text.clone(),
            },
            MValue::NameWithLanguage { language, name } => IppValue::NameWithLanguage {
                language: language.clone(),
                name: name.clone(),
            },
            MValue::Charset(s) => IppValue::Charset(s.clone()),
            MValue::NaturalLanguage(s) => IppValue::NaturalLanguage(s.clone()),
            MValue::Uri(s) => IppValue::Uri(s.clone()),
            MValue::UriScheme(s) => IppValue::UriScheme(s.clone()),
            MValue::RangeOfInteger { min, max } => IppValue::RangeOfInteger { min: *min, max: *max },
            MValue::Boolean(b) => IppValue::Boolean(*b),
            MValue::Keyword(s) => IppValue::Keyword(s.clone()),
            MValue::Array(v) => IppValue::Array(v.iter().map(|x| x.to_ipp()).collect()),
            MValue::Collection(m) => {
                IppValue::Collection(m.iter().map(|(k, v)| (k.clone(), v.to_ipp())).collect::<BTreeMap<_, _>>())
            }
            MValue::MimeMediaType(s) => IppValue::MimeMediaType(s.clone()),
            MValue::DateTime(d) => IppValue::DateTime {
                year: u16::from_be_bytes([d[0], d[1]]),
                month: d[2],
                day: d[3],
                hour: d[4],
                minutes: d[5],
                seconds: d[6],
                deci_seconds: d[7],
                utc_dir: d[8] as char,
                utc_hours: d[9],
                utc_mins: d[10],
            },
            MValue::MemberAttrName(s) => IppValue::MemberAttrName(s.clone()),
            MValue::Resolution { cross_feed, feed, units } => IppValue::Resolution {
                cross_feed: *cross_feed,
                feed: *feed,
                units: *units,
            },
            MValue::NoValue => IppValue::NoValue,
            MValue::Other { tag, data } => IppValue::Other {
                tag: *tag,
                data: Bytes::from(data.clone()),
            },
        }
    }
}

#[derive(Clone, Debug, PartialEq, Serialize, Deserialize)]
pub struct MGroup {
    pub tag: u8,
    pub attrs: Vec<(String, MValue)>,
}

#[derive(Clone, Debug, PartialEq, Serialize, Deserialize)]
pub struct MMsg {
    pub version: u16,
    pub op: u16,
    pub reqid: u32,
    pub groups: Vec<MGroup>,
}

pub fn delim_from_u8(t: u8) -> DelimiterTag {
    match t {
        0x01 => DelimiterTag::OperationAttributes,
        0x02 => DelimiterTag::JobAttributes,
        0x04 => DelimiterTag::PrinterAttributes,
        0x05 => DelimiterTag::UnsupportedAttributes,
        _ => DelimiterTag::OperationAttributes,
    }
}

impl MMsg {
    /// Build the crate's message object through its public API.
    pub fn build(&self) -> IppRequestResponse {
        let mut m = IppRequestResponse::new_response(IppVersion(self.version), StatusCode::SuccessfulOk, self.reqid);
        m.header_mut().operation_or_status = self.op;
        m.attributes_mut().groups_mut().clear();
        for g in &self.groups {
            let mut grp = IppAttributeGroup::new(delim_from_u8(g.tag));
            for (n, v) in &g.attrs {
                grp.attributes_mut().insert(n.clone(), IppAttribute::new(n, v.to_ipp()));
            }
            m.attributes_mut().groups_mut().push(grp);
        }
        m
    }
}

// ---------------------------------------------------------------------------------------------------------------
// strings

const KEYWORDS: &[&str] = &[
    "one-sided",
    "two-sided-long-edge",
    "iso_a4_210x297mm",
    "none",
    "media-jam",
    "paused",
    "idle",
    "auto",
    "color",
    "monochrome",
    "stationery",
    "x",
];

const ATTR_NAMES: &[&str] = &[
    "attributes-charset",
    "attributes-natural-language",
    "printer-uri",
    "job-id",
    "job-uri",
    "requesting-user-name",
    "job-name",
    "copies",
    "sides",
    "media",
    "media-col",
    "printer-state",
    "printer-state-reasons",
    "document-format",
    "last-document",
    "requested-attributes",
    "a",
    "b",
];

pub fn gen_ascii(rng: &mut Rng, max: usize) -> String {
    if max >= 4096 && rng.chance(1, 4) {
        // exactly at the bound (8191 / 8192 / 8193 / 16384 / 65535 ...)
        return (0..max).map(|i| (b'a' + (i % 26) as u8) as char).collect();
    }
    let n = match rng.below(10) {
        0 => 0,
        1..=6 => rng.usize(1, 8.min(max.max(1))),
        7..=8 => rng.usize(0, 40.min(max)),
        _ => rng.usize(0, max),
    };
    (0..n).map(|_| (b'a' + rng.below(26) as u8) as char).collect()
}

pub fn gen_utf8(rng: &mut Rng, max: usize) -> String {
    if rng.chance(3, 4) {
        return gen_ascii(rng, max);
    }
    let pool = ['a', 'Z', '0', ' ', '=', ':', 'é', 'ß', 'Ж', '中', '🖨', '\u{0}', '\n', '~', '\u{feff}', '\u{200b}', '\u{a0}', '\t', '\u{fffd}'];
    // mostly a handful of characters; with a generous bound sometimes a long run of multi-byte characters (text
    // beyond the 1023-octet RFC limit, character boundaries at every offset mod 2, 3 and 4)
    let n = if max >= 256 && rng.chance(1, 3) { rng.usize(max / 8, max) } else { rng.usize(0, 12) };
    let mut s = String::new();
    for _ in 0..n {
        let c = *rng.pick(&pool);
        if s.len() + c.len_utf8() > max {
            break;
        }
        s.push(c);
    }
    s
}

/// registered operation / job-template attribute names that are not among the crate's constants
const REGISTERED_NAMES: &[&str] = &[
    "system-uri", "printer-id", "document-uri", "document-name", "document-format", "compression", "ipp-attribute-fidelity",
    "job-k-octets", "job-impressions", "job-media-sheets", "which-jobs", "my-jobs", "limit", "message", "output-device-uuid",
    "notify-subscription-id", "resource-id", "document-number", "first-index", "job-ids",
];

/// a string of exactly n octets that mixes one-, two-, three- and four-octet characters (character boundaries fall
/// at many different offsets)
pub fn multibyte_exact(rng: &mut Rng, n: usize) -> String {
    let pool = ['a', 'é', 'Ж', '中', '🖨', 'z', 'ß'];
    let mut s = String::new();
    // a short random ASCII prefix shifts every later boundary
    for _ in 0..rng.usize(0, 3).min(n) {
        s.push('p');
    }
    while s.len() < n {
        let c = *rng.pick(&pool);
        if s.len() + c.len_utf8() <= n {
            s.push(c);
        } else {
            s.push('q');
        }
    }
    s
}

/// natural-language part of the with-language syntaxes: usually a short tag, sometimes long and multi-byte
/// (RFC 8011 limits it to 63 octets; a peer need not comply)
pub fn gen_language(rng: &mut Rng) -> String {
    match rng.below(12) {
        0 => multibyte_exact(rng, *rng.clone().pick(&[62usize, 63, 64, 65, 100, 255])),
        1 => (0..*rng.clone().pick(&[63usize, 64, 65])).map(|_| 'x').collect(),
        2 => rng.pick(&["en", "en-us", "fr-ca", "de", "zh-hant-tw", "i-klingon"]).to_string(),
        _ => gen_ascii(rng, 8),
    }
}

pub fn gen_name(rng: &mut Rng) -> String {
    if rng.chance(1, 16) {
        // long names: lengths around the limits that matter (64, 255 = longest legal name, 256), ASCII or multi-byte
        let n = *rng.pick(&[61usize, 63, 64, 65, 127, 128, 200, 254, 255, 255, 256, 300]);
        return if rng.chance(1, 2) { (0..n).map(|i| (b'a' + (i % 26) as u8) as char).collect() } else { multibyte_exact(rng, n) };
    }
    if rng.chance(1, 12) {
        return rng.pick(REGISTERED_NAMES).to_string();
    }
    match rng.below(4) {
        0 | 1 => rng.pick(ATTR_NAMES).to_string(),
        2 => {
            let mut s = gen_ascii(rng, 24);
            if s.is_empty() {
                s.push('n');
            }
            s
        }
        _ => {
            let mut s = gen_utf8(rng, 24);
            if s.is_empty() {
                s.push('m');
            }
            s
        }
    }
}

// ---------------------------------------------------------------------------------------------------------------
// model message generation

#[derive(Clone, Copy, Debug)]
pub struct ShapeCfg {
    pub max_groups: usize,
    pub max_attrs: usize,
    pub max_set: usize,
    pub max_depth: usize,
    pub max_members: usize,
    pub max_str: usize,
    /// allow sets whose elements have different syntaxes (the crate's encoder mis-tags those)
    pub mixed_sets: bool,
}

impl ShapeCfg {
    pub fn swarm(rng: &mut Rng) -> ShapeCfg {
        let big = rng.chance(1, 16);
        ShapeCfg {
            max_groups: *rng.pick(&[1, 1, 2, 3, 4]),
            max_attrs: if big { 24 } else { *rng.pick(&[0, 1, 2, 3, 5, 8]) },
            max_set: *rng.pick(&[1, 2, 3, 6]),
            max_depth: *rng.pick(&[0, 1, 2, 3, 5]),
            max_members: *rng.pick(&[1, 2, 4]),
            max_str: if big { *rng.pick(&[300, 1023, 5000, 8191, 8192, 8193, 16384, 65535]) } else { *rng.pick(&[0, 4, 16, 40, 255, 256]) },
            mixed_sets: rng.chance(1, 8),
        }
        .bounded()
    }
    /// keep messages with very long strings to a handful of attributes
    fn bounded(mut self) -> ShapeCfg {
        if self.max_str >= 8191 {
            self.max_attrs = self.max_attrs.min(3);
            self.max_set = self.max_set.min(2);
            self.max_members = self.max_members.min(2);
        }
        self
    }
    pub fn tiny() -> ShapeCfg {
        ShapeCfg {
            max_groups: 1,
            max_attrs: 1,
            max_set: 1,
            max_depth: 0,
            max_members: 1,
            max_str: 2,
            mixed_sets: false,
        }
    }
}

fn gen_mscalar(rng: &mut Rng, c: &ShapeCfg, kind: u64) -> MValue {
    let s = |rng: &mut Rng| gen_utf8(rng, c.max_str);
    match kind {
        0 => MValue::Integer(gen_i32(rng)),
        1 => MValue::Enum(gen_i32(rng)),
        2 => MValue::OctetString(s(rng)),
        3 => MValue::TextWithoutLanguage(s(rng)),
        4 => MValue::NameWithoutLanguage(s(rng)),
        5 => MValue::TextWithLanguage {
            language: gen_language(rng),
            text: s(rng),
        },
        6 => MValue::NameWithLanguage {
            language: gen_language(rng),
            name: s(rng),
        },
        7 => MValue::Charset(gen_ascii(rng, 12)),
        8 => MValue::NaturalLanguage(gen_ascii(rng, 8)),
        9 => MValue::Uri(format!("ipp://{}/p", gen_ascii(rng, 12))),
        10 => MValue::UriScheme(gen_ascii(rng, 6)),
        11 => MValue::RangeOfInteger {
            min: gen_i32(rng),
            max: gen_i32(rng),
        },
        12 => MValue::Boolean(rng.chance(1, 2)),
        13 => MValue::Keyword(if rng.chance(1, 2) { rng.pick(KEYWORDS).to_string() } else { gen_ascii(rng, c.max_str) }),
        14 => MValue::MimeMediaType("application/pdf".into()),
        15 => {
            let mut d = [0u8; 11];
            for x in d.iter_mut() {
                *x = rng.byte();
            }
            d[8] = *rng.pick(&[b'+', b'-', b'+', 0x7f, 0x00]); // utc_dir must stay ASCII to survive `as char`/`as u8`
            MValue::DateTime(d)
        }
        16 => MValue::Resolution {
            cross_feed: gen_i32(rng),
            feed: gen_i32(rng),
            units: *rng.pick(&[3i8, 4, 0, -1]),
        },
        17 => MValue::NoValue,
        _ => {
            // unregistered / out-of-band syntaxes carried as raw octets
            let tag = *rng.pick(&[0x10u8, 0x12, 0x11, 0x15, 0x1f, 0x20, 0x2f, 0x38, 0x40, 0x43]);
            let n = rng.usize(0, 6.min(c.max_str));
            MValue::Other { tag, data: rng.bytes(n) }
        }
    }
}

pub fn gen_i32(rng: &mut Rng) -> i32 {
    match rng.below(8) {
        0 => 0,
        1 => 1,
        2 => -1,
        3 => i32::MAX,
        4 => i32::MIN,
        5 => rng.range(0, 300) as i32,
        _ => rng.next() as i32,
    }
}

fn gen_mvalue(rng: &mut Rng, c: &ShapeCfg, depth: usize) -> MValue {
    let roll = rng.below(12);
    if roll == 0 && depth < c.max_depth {
        return gen_mcoll(rng, c, depth + 1);
    }
    if roll == 1 && c.max_set >= 2 {
        let n = rng.usize(2, c.max_set);
        let kind = rng.below(19);
        let coll = depth < c.max_depth && rng.chance(1, 6);
        let mut v = Vec::new();
        for _ in 0..n {
            if coll {
                v.push(gen_mcoll(rng, c, depth + 1));
            } else if c.mixed_sets && rng.chance(1, 3) {
                let k = rng.below(19);
                v.push(gen_mscalar(rng, c, k));
            } else {
                v.push(gen_mscalar(rng, c, kind));
            }
        }
        return MValue::Array(v);
    }
    let k = rng.below(19);
    gen_mscalar(rng, c, k)
}

fn gen_mcoll(rng: &mut Rng, c: &ShapeCfg, depth: usize) -> MValue {
    let n = rng.usize(0, c.max_members);
    let mut members: Vec<(String, MValue)> = Vec::new();
    for i in 0..n {
        let mut name = gen_ascii(rng, 10);
        name.push_str(&format!("{i}")); // unique, non-empty
        // member values: scalars or nested collections (sets inside members are a known codec defect domain; allowed
        // only under mixed_sets so that most cases stay inside the round-trippable domain)
        let v = if depth < c.max_depth && rng.chance(1, 3) {
            gen_mcoll(rng, c, depth + 1)
        } else {
            let k = rng.below(19);
            gen_mscalar(rng, c, k)
        };
        members.push((name, v));
    }
    MValue::Collection(members)
}

pub fn gen_mmsg(rng: &mut Rng, c: &ShapeCfg) -> MMsg {
    let ngroups = rng.usize(1, c.max_groups.max(1));
    let mut groups = Vec::new();
    for gi in 0..ngroups {
        // the crate's encoder writes the first operation group first and drops later ones: keep group kinds unique
        // and the operation group first so the stream is the message
        let tag = if gi == 0 { 0x01 } else { [0x02u8, 0x04, 0x05][(gi - 1) % 3] };
        if gi >= 4 {
            break;
        }
        let na = rng.usize(0, c.max_attrs);
        let mut attrs: Vec<(String, MValue)> = Vec::new();
        for _ in 0..na {
            let name = gen_name(rng);
            if attrs.iter().any(|(n, _)| *n == name) {
                continue;
            }
            let v = gen_mvalue(rng, c, 0);
            attrs.push((name, v));
        }
        groups.push(MGroup { tag, attrs });
    }
    MMsg {
        version: *rng.pick(&[0x0101u16, 0x0200, 0x0100, 0x0202, 0xffff, 0x0000]),
        op: match rng.below(4) {
            0 => 0x0000,
            1 => 0x0002,
            2 => 0x000b,
            _ => rng.next() as u16,
        },
        reqid: match rng.below(4) {
            0 => 1,
            1 => 0,
            2 => u32::MAX,
            _ => rng.next() as u32,
        },
        groups,
    }
}

// ---------------------------------------------------------------------------------------------------------------
// wire tree generation (RFC 8010 grammar, including forms the crate's encoder never emits)

fn gen_text_bytes(rng: &mut Rng, max: usize) -> Vec<u8> {
    match rng.below(8) {
        0 => {
            // not valid UTF-8
            let n = rng.usize(1, 6.min(max.max(1)));
            let mut v = rng.bytes(n);
            v[0] = *rng.pick(&[0xffu8, 0xc0, 0xe9, 0x80, 0xfe]);
            v
        }
        _ => gen_utf8(rng, max).into_bytes(),
    }
}

fn gen_wscalar(rng: &mut Rng, c: &ShapeCfg, in_coll: bool) -> WVal {
    let tag: u8 = match rng.below(10) {
        0 => *rng.pick(&[0x10u8, 0x12, 0x13, 0x11, 0x14, 0x1f]), // out-of-band
        1 => {
            // unregistered syntaxes inside the value-tag range
            let choices: &[u8] = if in_coll {
                &[0x20, 0x24, 0x2f, 0x38, 0x3f, 0x40, 0x43]
            } else {
                &[0x20, 0x24, 0x2f, 0x38, 0x3f, 0x40, 0x43, 0x4a]
            };
            *rng.pick(choices)
        }
        2 | 3 => *rng.pick(&[0x21u8, 0x23, 0x22, 0x33]),
        4 => *rng.pick(&[0x31u8, 0x32, 0x35, 0x36]),
        _ => *rng.pick(&[0x30u8, 0x41, 0x42, 0x44, 0x45, 0x46, 0x47, 0x48, 0x49]),
    };
    let body = match tag {
        0x21 | 0x23 => gen_i32(rng).to_be_bytes().to_vec(),
        0x22 => vec![*rng.pick(&[0u8, 1, 1, 2, 0xff])],
        0x33 => {
            let mut v = gen_i32(rng).to_be_bytes().to_vec();
            v.extend_from_slice(&gen_i32(rng).to_be_bytes());
            v
        }
        0x31 => rng.bytes(11),
        0x32 => rng.bytes(9),
        0x35 | 0x36 => {
            let l = gen_language(rng).into_bytes();
            let t = gen_text_bytes(rng, c.max_str);
            let mut v = (l.len() as u16).to_be_bytes().to_vec();
            v.extend_from_slice(&l);
            v.extend_from_slice(&(t.len() as u16).to_be_bytes());
            v.extend_from_slice(&t);
            v
        }
        0x10..=0x1f => {
            if rng.chance(7, 8) {
                vec![]
            } else {
                let n = rng.usize(1, 4);
                rng.bytes(n)
            }
        }
        0x20..=0x2f | 0x38..=0x40 | 0x43 => {
            let n = rng.usize(0, 8);
            rng.bytes(n)
        }
        _ => gen_text_bytes(rng, c.max_str),
    };
    WVal::Scalar { tag, body }
}

fn gen_wcoll(rng: &mut Rng, c: &ShapeCfg, depth: usize) -> WVal {
    let n = rng.usize(0, c.max_members);
    let mut members = Vec::new();
    for i in 0..n {
        let mut name = gen_ascii(rng, 10).into_bytes();
        if !rng.chance(1, 8) {
            name.extend_from_slice(format!("{i}").as_bytes());
        }
        let nv = if c.max_set >= 2 && rng.chance(1, 4) { rng.usize(1, c.max_set) } else { 1 };
        let mut values = Vec::new();
        for _ in 0..nv {
            if depth < c.max_depth && rng.chance(1, 3) {
                values.push(gen_wcoll(rng, c, depth + 1));
            } else {
                values.push(gen_wscalar(rng, c, true));
            }
        }
        members.push(WMember { name, values });
    }
    WVal::Coll(members)
}

pub fn gen_wmsg(rng: &mut Rng, c: &ShapeCfg) -> WMsg {
    let ngroups = if rng.chance(1, 10) { 0 } else { rng.usize(1, c.max_groups.max(1)) };
    let mut groups = Vec::new();
    for gi in 0..ngroups {
        // repeated and empty groups allowed; any delimiter kind in any position
        let tag = if gi == 0 && rng.chance(3, 4) { 0x01 } else { *rng.pick(&[0x01u8, 0x02, 0x04, 0x05, 0x02, 0x04]) };
        let na = rng.usize(0, c.max_attrs);
        let mut attrs = Vec::new();
        for _ in 0..na {
            let name = gen_name(rng).into_bytes();
            let nv = if c.max_set >= 2 && rng.chance(1, 4) { rng.usize(2, c.max_set) } else { 1 };
            let mut values = Vec::new();
            let homogeneous = rng.chance(2, 3);
            let first = if c.max_depth > 0 && rng.chance(1, 8) { gen_wcoll(rng, c, 1) } else { gen_wscalar(rng, c, false) };
            values.push(first.clone());
            for _ in 1..nv {
                if homogeneous {
                    match &first {
                        WVal::Coll(_) => values.push(gen_wcoll(rng, c, 1)),
                        WVal::Scalar { tag, .. } => {
                            // same syntax, fresh body of a legal size for that syntax
                            let mut v = gen_wscalar(rng, c, false);
                            for _ in 0..20 {
                                if matches!(&v, WVal::Scalar { tag: t, .. } if t == tag) {
                                    break;
                                }
                                v = gen_wscalar(rng, c, false);
                            }
                            if !matches!(&v, WVal::Scalar { tag: t, .. } if t == tag) {
                                v = first.clone();
                            }
                            values.push(v);
                        }
                    }
                } else if c.max_depth > 0 && rng.chance(1, 6) {
                    values.push(gen_wcoll(rng, c, 1));
                } else {
                    values.push(gen_wscalar(rng, c, false));
                }
            }
            attrs.push(WAttr { name, values });
        }
        groups.push(WGroup { tag, attrs });
    }
    // 1 message in 5 starts the way real ones do: attributes-charset (from a vocabulary that includes legacy
    // charsets) and attributes-natural-language first
    if rng.chance(1, 5) {
        if groups.is_empty() {
            groups.push(WGroup { tag: 0x01, attrs: vec![] });
        }
        let cs = *rng.pick(&["utf-8", "utf-8", "iso-8859-1", "ISO-8859-1", "us-ascii", "iso-8859-15", "windows-1252", "utf-16"]);
        let g = &mut groups[0];
        g.attrs.retain(|a| a.name != b"attributes-charset" && a.name != b"attributes-natural-language");
        g.attrs.insert(0, WAttr { name: b"attributes-natural-language".to_vec(), values: vec![WVal::Scalar { tag: 0x48, body: gen_language(rng).into_bytes() }] });
        g.attrs.insert(0, WAttr { name: b"attributes-charset".to_vec(), values: vec![WVal::Scalar { tag: 0x47, body: cs.as_bytes().to_vec() }] });
    }
    WMsg {
        version: *rng.pick(&[0x0101u16, 0x0200, 0x0100, 0x0202, 0xffff, 0x0000]),
        op: match rng.below(4) {
            0 => 0x0000,
            1 => 0x0002,
            2 => 0x0401,
            _ => rng.next() as u16,
        },
        reqid: match rng.below(4) {
            0 => 1,
            1 => 0,
            2 => u32::MAX,
            _ => rng.next() as u32,
        },
        groups,
    }
}

// ---------------------------------------------------------------------------------------------------------------
// streams

#[derive(Clone, Debug, PartialEq, Serialize, Deserialize)]
pub enum Stream {
    /// reference-encoded wire tree
    Wire(WMsg),
    /// crate-encoded model message (byte order of attributes depends on the run's seeded hash keys)
    Model(MMsg),
    /// raw bytes
    Raw(#[serde(with = "hexbytes")] Vec<u8>),
}

impl Stream {
    pub fn materialize(&self) -> Vec<u8> {
        match self {
            Stream::Wire(w) => refcodec::encode(w).bytes,
            Stream::Model(m) => m.build().to_bytes().to_vec(),
            Stream::Raw(b) => b.clone(),
        }
    }
    pub fn kind(&self) -> &'static str {
        match self {
            Stream::Wire(_) => "wire",
            Stream::Model(_) => "model",
            Stream::Raw(_) => "raw",
        }
    }
}

pub fn gen_stream(rng: &mut Rng, c: &ShapeCfg) -> Stream {
    if rng.chance(1, 2) {
        Stream::Wire(gen_wmsg(rng, c))
    } else {
        Stream::Model(gen_mmsg(rng, c))
    }
}

// ---------------------------------------------------------------------------------------------------------------
// payloads

/// sizes around the buffer sizes that matter somewhere on the path (BufReader 8 KiB, 4 KiB pages, ureq/hyper chunking,
/// the 16-bit length limit)
pub const BOUNDARY_SIZES: [usize; 17] = [255, 256, 4095, 4096, 4097, 8191, 8192, 8193, 16383, 16384, 16385, 32768, 65535, 65536, 65537, 131071, 131072];

pub fn gen_payload(rng: &mut Rng, max: usize) -> Vec<u8> {
    if rng.chance(1, 25) {
        // a size class, independent of the caller's usual bound
        let n = *rng.pick(&BOUNDARY_SIZES);
        return if rng.chance(1, 2) { rng.bytes(n) } else { vec![*rng.pick(&[0x00u8, 0x03, 0x61, 0xff]); n] };
    }
    match rng.below(10) {
        0 | 1 => vec![],
        2 => vec![*rng.pick(&[0x03u8, 0x01, 0x00, 0x4a, 0xff])],
        3 | 4 => {
            // bytes that look like IPP tags / a second message
            let n = rng.usize(1, 64.min(max.max(1)));
            (0..n).map(|_| *rng.pick(&[0x03u8, 0x01, 0x02, 0x04, 0x21, 0x44, 0x4a, 0x34, 0x37, 0x00])).collect()
        }
        5..=7 => {
            let n = rng.usize(1, 600.min(max.max(1)));
            rng.bytes(n)
        }
        _ => {
            let n = rng.log_uniform(max as u64) as usize;
            rng.bytes(n)
        }
    }
}

// ---------------------------------------------------------------------------------------------------------------
// delivery schedules

#[derive(Clone, Copy, Debug)]
pub struct TraceOpts {
    pub is_async: bool,
    pub eintr: bool,
    pub pend: bool,
    /// wake modes allowed for Pend
    pub after: bool,
    pub cross: bool,
    pub max_events: usize,
}

pub const STYLES: [&str; 8] = ["whole", "ones", "uniform", "composition", "geometric", "token_edges", "offer_all", "dense_then_whole"];

/// Returns (style index, events). `head_len` is the length of header+attributes (cuts are concentrated there),
/// `total_len` the whole stream.
pub fn gen_trace(rng: &mut Rng, head_len: usize, total_len: usize, toks: &[Tok], o: &TraceOpts) -> (usize, Vec<Ev>) {
    let style = rng.below(STYLES.len() as u64) as usize;
    let mut cuts: Vec<usize> = Vec::new(); // absolute offsets, strictly inside (0, total_len)
    let tail_chunk = *rng.pick(&[1usize, 7, 512, 4096, 65536, usize::MAX]);
    let head_end = head_len.min(total_len);
    match style {
        0 => {}
        1 => cuts.extend(1..head_end.min(o.max_events)),
        2 => {
            let k = rng.usize(1, head_end.clamp(1, 64));
            let mut p = k;
            while p < head_end {
                cuts.push(p);
                p += k;
            }
        }
        3 => {
            let den = *rng.pick(&[2u64, 3, 4, 16]);
            for p in 1..head_end {
                if rng.chance(1, den) {
                    cuts.push(p);
                }
            }
        }
        4 => {
            let mut p = 0;
            loop {
                p += 1 + rng.geometric(8);
                if p >= head_end {
                    break;
                }
                cuts.push(p);
            }
        }
        5 => {
            for t in toks {
                if rng.chance(1, 2) {
                    let d = rng.below(3) as isize - 1;
                    let p = t.start as isize + d;
                    if p > 0 && (p as usize) < total_len {
                        cuts.push(p as usize);
                    }
                }
            }
        }
        6 => {}
        _ => {
            // dense 1-byte chunks over a random window, whole elsewhere
            if head_end > 1 {
                let a = rng.usize(0, head_end - 1);
                let b = (a + rng.usize(1, 24)).min(head_end);
                cuts.extend(a.max(1)..b);
            }
        }
    }
    // fragmentation of the tail (payload)
    if style != 0 && style != 6 && tail_chunk != usize::MAX && total_len > head_end {
        let mut p = head_end;
        // boundary itself is a likely cut
        if rng.chance(1, 2) && p > 0 && p < total_len {
            cuts.push(p);
        }
        let mut n = 0;
        loop {
            p += if tail_chunk == 1 { 1 } else { rng.usize(1, tail_chunk) };
            if p >= total_len || n > 512 {
                break;
            }
            cuts.push(p);
            n += 1;
        }
    }
    cuts.sort_unstable();
    cuts.dedup();
    let mut evs = Vec::new();
    let mut prev = 0usize;
    let noise_den = *rng.pick(&[1u64, 2, 4, 16, 0]); // 0 = no Pend/Eintr noise in this run
    let push_noise = |rng: &mut Rng, evs: &mut Vec<Ev>| {
        if noise_den == 0 || !rng.chance(1, noise_den) {
            return;
        }
        if o.is_async && o.pend {
            let n = rng.usize(1, 2);
            for _ in 0..n {
                let wake = match rng.below(3) {
                    0 => Wake::Inline,
                    1 if o.after => Wake::After(rng.range(1, 3) as u8),
                    2 if o.cross => Wake::Cross,
                    _ => Wake::Inline,
                };
                let spurious = if matches!(wake, Wake::After(_)) && rng.chance(1, 3) { rng.range(1, 2) as u8 } else { 0 };
                evs.push(Ev::Pend { wake, spurious });
            }
        } else if !o.is_async && o.eintr {
            let n = rng.usize(1, 3);
            for _ in 0..n {
                evs.push(Ev::Eintr);
            }
        }
    };
    for &c in &cuts {
        if evs.len() + 4 >= o.max_events {
            break;
        }
        push_noise(rng, &mut evs);
        evs.push(Ev::Give((c - prev) as u32));
        prev = c;
    }
    if evs.len() + 4 < o.max_events {
        push_noise(rng, &mut evs);
        if style == 6 || rng.chance(1, 2) {
            evs.push(Ev::Give(u32::MAX));
            // events after the end of data: not-ready / EINTR before EOF is reported
            push_noise(rng, &mut evs);
        }
    }
    (style, evs)
}

/// Rare events added to a generated schedule (each drawn independently, so most schedules have none):
/// - a burst of 1025..5000 consecutive Interrupted results (blocking source) or not-ready results with an inline wake
///   (async source) at one point of the stream - retry loops with a hidden bound;
/// - `slow`: one call that takes 260..1500 ms on the clock seam - code that measures how long a read took.
pub fn add_rare_events(rng: &mut Rng, evs: &mut Vec<Ev>, o: &TraceOpts, slow: bool) {
    if rng.chance(1, 150) && ((o.is_async && o.pend) || (!o.is_async && o.eintr)) {
        let n = *rng.pick(&[1025usize, 1100, 2000, 5000]);
        let at = rng.usize(0, evs.len());
        let ev = if o.is_async { Ev::Pend { wake: Wake::Inline, spurious: 0 } } else { Ev::Eintr };
        evs.splice(at..at, std::iter::repeat(ev).take(n));
    }
    if slow && rng.chance(1, 400) {
        let ms = *rng.pick(&[260u16, 400, 1100, 1500]);
        // not after the last chunk: a slow call must be followed by more calls to matter
        let at = rng.usize(0, evs.len().saturating_sub(1));
        evs.insert(at, Ev::Slow(ms));
    }
}

/// classify a data offset for the reach matrices
pub fn class_of_offset(toks: &[Tok], off: usize) -> TokClass {
    refcodec::class_at(toks, off)
}
