//! FFI to the LD_PRELOADed getrandom shim (sim/shim/getrandom.c). Resolved with dlsym so that the binary also
//! starts without the shim (and then reports a harness error, exit 2, where seeded hash keys are required).

use std::{collections::HashMap, ffi::CString, sync::OnceLock};

type SetFn = unsafe extern "C" fn(u64);

fn lookup() -> Option<SetFn> {
    static F: OnceLock<Option<usize>> = OnceLock::new();
    let p = *F.get_or_init(|| unsafe {
        let name = CString::new("verif_set_thread_seed").unwrap();
        let p = libc::dlsym(libc::RTLD_DEFAULT, name.as_ptr());
        if p.is_null() {
            None
        } else {
            Some(p as usize)
        }
    });
    p.map(|p| unsafe { std::mem::transmute::<usize, SetFn>(p) })
}

pub fn present() -> bool {
    lookup().is_some()
}

/// Must be the first thing a fresh run thread does (before it creates any HashMap).
pub fn set_thread_seed(seed: u64) {
    if let Some(f) = lookup() {
        unsafe { f(seed) }
    }
}

fn order_on_fresh_thread(seed: u64) -> Vec<u32> {
    std::thread::spawn(move || {
        set_thread_seed(seed);
        let mut m: HashMap<String, u32> = HashMap::new();
        for i in 0..24u32 {
            m.insert(format!("k{i}"), i);
        }
        m.values().copied().collect::<Vec<_>>()
    })
    .join()
    .unwrap()
}

/// Start-up self-test: the seam is live iff same seed ⇒ same order on two threads and 8 seeds ⇒ ≥ 2 distinct orders.
pub fn self_test() -> Result<(), String> {
    if !present() {
        return Err("getrandom shim not loaded (LD_PRELOAD=libverifshim.so missing)".into());
    }
    let a = order_on_fresh_thread(42);
    let b = order_on_fresh_thread(42);
    if a != b {
        return Err("hash-key seam not effective: same seed gave different HashMap orders".into());
    }
    let mut distinct = std::collections::BTreeSet::new();
    for s in 0..8u64 {
        distinct.insert(order_on_fresh_thread(s));
    }
    if distinct.len() < 2 {
        return Err("hash-key seam not effective: 8 seeds gave one HashMap order".into());
    }
    if !clock_self_test() {
        return Err("clock seam not effective: an advance of the shim's clock is not visible to Instant::now()".into());
    }
    Ok(())
}

/// Clock seam of the same shim: every clock of this process jumps forward by `ms` (no real waiting). Returns false
/// when the shim is not loaded (the event then does nothing and is counted as not fired).
pub fn advance_clock_ms(ms: u32) -> bool {
    static F: OnceLock<Option<usize>> = OnceLock::new();
    let p = *F.get_or_init(|| unsafe {
        let name = CString::new("verif_advance_clock_ns").unwrap();
        let p = libc::dlsym(libc::RTLD_DEFAULT, name.as_ptr());
        if p.is_null() {
            None
        } else {
            Some(p as usize)
        }
    });
    match p {
        Some(p) => {
            unsafe { std::mem::transmute::<usize, SetFn>(p)(ms as u64 * 1_000_000) };
            true
        }
        None => false,
    }
}

/// the clock seam is live iff an advance is visible to `Instant`
pub fn clock_self_test() -> bool {
    let t0 = std::time::Instant::now();
    if !advance_clock_ms(50) {
        return false;
    }
    t0.elapsed() >= std::time::Duration::from_millis(50)
}
