//! A silent `log` logger whose level is a function of the run: log-macro arguments inside the code under test are
//! evaluated only when the level is enabled, so "a logger is installed" is a configuration the checks must cover.
//! Each worker process executes one run at a time, so the process-global level is well defined per run.

use std::sync::atomic::{AtomicU64, Ordering};

struct Silent;

pub static RECORDS: AtomicU64 = AtomicU64::new(0);

impl log::Log for Silent {
    fn enabled(&self, _: &log::Metadata) -> bool {
        true
    }
    fn log(&self, record: &log::Record) {
        // format the arguments (that is what a real logger does) and drop them
        let s = format!("{}", record.args());
        RECORDS.fetch_add(1 + (s.len() as u64 & 0), Ordering::Relaxed);
    }
    fn flush(&self) {}
}

static LOGGER: Silent = Silent;

pub fn install() {
    let _ = log::set_logger(&LOGGER);
    log::set_max_level(log::LevelFilter::Off);
}

/// off for even seeds, Trace for odd ones (Error-only for every 8th)
pub fn set_for_run(hash_seed: u64) {
    let lvl = match hash_seed % 8 {
        0 | 2 | 4 | 6 => log::LevelFilter::Off,
        7 => log::LevelFilter::Error,
        _ => log::LevelFilter::Trace,
    };
    log::set_max_level(lvl);
}

pub fn level_name() -> &'static str {
    match log::max_level() {
        log::LevelFilter::Off => "off",
        log::LevelFilter::Error => "error",
        _ => "trace",
    }
}
