//! ippsim — deterministic simulation with fault injection for ancwrd1/ipp.rs.
//! usage: ippsim check <ID> <quick|thorough> | ippsim replay <ID> <file> | ippsim selfcheck <ID>...

#![allow(dead_code)]

mod damage;
mod drive;
mod exec;
mod framework;
mod gen;
mod hashseed;
mod logger;
mod net;
mod outcome;
mod printer;
mod props;
mod refcodec;
mod rng;
mod tcp;
mod wire;

use std::path::PathBuf;

use framework::{CheckOpts, Tier};

fn usage() -> ! {
    eprintln!("usage: ippsim check <ID> <quick|thorough> [--runs N] [--workers N] [--evidence PATH]\n       ippsim replay <ID> <file>\n       ippsim selfcheck [ID...]");
    std::process::exit(2)
}

fn env_u64(name: &str) -> Option<u64> {
    std::env::var(name).ok().and_then(|v| v.trim().parse().ok())
}

macro_rules! with_prop {
    ($id:expr, $p:ident => $body:expr) => {
        match $id {
            "C02" => {
                let $p = props::c02::C02;
                $body
            }
            "C11" => {
                let $p = props::c11::C11;
                $body
            }
            "C18" => {
                let $p = props::c18::C18;
                $body
            }
            "C05" => {
                let $p = props::c05::C05;
                $body
            }
            "C06" => {
                let $p = props::c06::C06;
                $body
            }
            "C07" => {
                let $p = props::c07::C07;
                $body
            }
            "C08" => {
                let $p = props::c08::C08;
                $body
            }
            "C09" => {
                let $p = props::c09::C09;
                $body
            }
            other => {
                eprintln!("harness error: unknown or unclaimed property {other}");
                std::process::exit(2)
            }
        }
    };
}

fn main() {
    let args: Vec<String> = std::env::args().skip(1).collect();
    if args.is_empty() {
        usage();
    }
    outcome::install_quiet_panic_hook();
    logger::install();
    if let Err(e) = hashseed::self_test() {
        eprintln!("harness error: {e}");
        std::process::exit(2);
    }
    let workers = env_u64("VERIF_WORKERS").map(|v| v as usize).unwrap_or_else(|| {
        std::thread::available_parallelism().map(|n| n.get()).unwrap_or(4)
    });
    match args[0].as_str() {
        "check" => {
            if args.len() < 3 {
                usage();
            }
            let id = args[1].as_str();
            let tier = match args[2].as_str() {
                "quick" => Tier::Quick,
                "thorough" => Tier::Thorough,
                _ => usage(),
            };
            let mut o = CheckOpts {
                tier,
                seed: env_u64("VERIF_SEED").unwrap_or(1),
                runs: env_u64("VERIF_RUNS"),
                workers,
                evidence: None,
            };
            let mut i = 3;
            while i < args.len() {
                match args[i].as_str() {
                    "--runs" => {
                        o.runs = args.get(i + 1).and_then(|v| v.parse().ok());
                        i += 2;
                    }
                    "--workers" => {
                        o.workers = args.get(i + 1).and_then(|v| v.parse().ok()).unwrap_or(workers);
                        i += 2;
                    }
                    "--evidence" => {
                        o.evidence = args.get(i + 1).map(PathBuf::from);
                        i += 2;
                    }
                    _ => usage(),
                }
            }
            let code = with_prop!(id, p => framework::standard_check(&p, &o));
            std::process::exit(code);
        }
        "worker" => {
            let id = args[1].clone();
            let code = with_prop!(id.as_str(), p => framework::worker_entry(&p, &args));
            std::process::exit(code);
        }
        #[cfg(any(feature = "tlsnative", feature = "tlsrustls"))]
        "c12" => {
            std::process::exit(props::c12::main_c12(&args));
        }
        #[cfg(any(feature = "tlsnative", feature = "tlsrustls"))]
        "replay" if args.get(1).map(|s| s == "C12").unwrap_or(false) => {
            std::process::exit(props::c12::replay_c12(&PathBuf::from(&args[2])));
        }
        "exec1" => {
            let id = args[1].clone();
            let path = PathBuf::from(&args[2]);
            let record = args.get(3).map(|s| s == "record").unwrap_or(false);
            let code = with_prop!(id.as_str(), p => framework::exec1_entry(&p, &path, record));
            std::process::exit(code);
        }
        "replay" => {
            if args.len() < 3 {
                usage();
            }
            let id = args[1].as_str();
            let path = PathBuf::from(&args[2]);
            let code = with_prop!(id, p => framework::standard_replay(&p, &path));
            std::process::exit(code);
        }
        "shrinkcheck" => {
            let ids: Vec<String> = args[1..].to_vec();
            let cases = env_u64("VERIF_RUNS").unwrap_or(150);
            let mut bad = false;
            for id in &ids {
                let r = with_prop!(id.as_str(), p => framework::shrink_soundness(&p, env_u64("VERIF_SEED").unwrap_or(1), cases, 12));
                match r {
                    Ok(n) => println!("shrinker soundness {id}: ok ({n} candidates of {cases} cases executed, none violates)"),
                    Err(e) => {
                        println!("shrinker soundness {id}: FAILED {e}");
                        bad = true;
                    }
                }
            }
            std::process::exit(if bad { 2 } else { 0 });
        }
        "selfcheck" => {
            let ids: Vec<String> = if args.len() > 1 { args[1..].to_vec() } else { vec!["C06".into()] };
            let runs = env_u64("VERIF_RUNS").unwrap_or(2000);
            let mut bad = false;
            for id in &ids {
                let r = with_prop!(id.as_str(), p => framework::determinism_check(&p, env_u64("VERIF_SEED").unwrap_or(1), runs));
                match r {
                    Ok(d) => println!("determinism {id}: ok digest={d:016x} ({runs} seeds x 2 repetitions x workers 1/4/16)"),
                    Err(e) => {
                        println!("determinism {id}: FAILED {e}");
                        bad = true;
                    }
                }
            }
            std::process::exit(if bad { 2 } else { 0 });
        }
        _ => usage(),
    }
}
