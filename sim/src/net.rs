//! Drivers for the simulated printer: the in-memory transport (tier A: every byte the blocking client sends or
//! receives passes through here, single-threaded or under the baton scheduler) and loopback TCP servers (tier B).

use std::{
    collections::{BTreeMap, BTreeSet},
    fmt,
    io::{self, Read, Write},
    net::{TcpListener, TcpStream},
    sync::{Arc, Condvar, Mutex, OnceLock},
};

use serde::Serialize;

use crate::{
    printer::{Conn, Out, ReqRecord, Script, Server},
    rng::Fnv,
    wire::ErrKind,
};

// ---------------------------------------------------------------------------------------------------------------
// baton scheduler: N real threads, exactly one runs; every transport call is a yield point; the seeded schedule
// decides who runs next. Real threads, simulated choice => replays exactly.

pub struct Baton {
    m: Mutex<BState>,
    cv: Condvar,
}

struct BState {
    n: usize,
    registered: usize,
    current: Option<usize>,
    waiting: BTreeSet<usize>,
    schedule: Vec<u8>,
    pos: usize,
    pub switches: u64,
    pub order: Fnv,
}

impl Baton {
    pub fn new(n: usize, schedule: Vec<u8>) -> Arc<Baton> {
        Arc::new(Baton {
            m: Mutex::new(BState { n, registered: 0, current: None, waiting: BTreeSet::new(), schedule, pos: 0, switches: 0, order: Fnv::default() }),
            cv: Condvar::new(),
        })
    }

    fn pick(st: &mut BState) {
        if st.waiting.is_empty() {
            st.current = None;
            return;
        }
        let k = if st.schedule.is_empty() { 0 } else { st.schedule[st.pos % st.schedule.len()] as usize };
        st.pos += 1;
        let idx = k % st.waiting.len();
        let tid = *st.waiting.iter().nth(idx).unwrap();
        st.waiting.remove(&tid);
        if st.current != Some(tid) {
            st.switches += 1;
        }
        st.order.u64(tid as u64);
        st.current = Some(tid);
    }

    pub fn enter(&self, tid: usize) {
        let mut st = self.m.lock().unwrap();
        st.registered += 1;
        st.waiting.insert(tid);
        if st.registered == st.n {
            Self::pick(&mut st);
            self.cv.notify_all();
        }
        while st.current != Some(tid) {
            st = self.cv.wait(st).unwrap();
        }
    }

    pub fn yield_point(&self, tid: usize) {
        let mut st = self.m.lock().unwrap();
        if st.current != Some(tid) {
            return; // not under the scheduler (e.g. called after leave)
        }
        st.waiting.insert(tid);
        Self::pick(&mut st);
        self.cv.notify_all();
        while st.current != Some(tid) {
            st = self.cv.wait(st).unwrap();
        }
    }

    pub fn leave(&self, tid: usize) {
        let mut st = self.m.lock().unwrap();
        if st.current == Some(tid) {
            Self::pick(&mut st);
            self.cv.notify_all();
        } else {
            st.waiting.remove(&tid);
        }
    }

    pub fn stats(&self) -> (u64, u64) {
        let st = self.m.lock().unwrap();
        (st.switches, st.order.finish())
    }
}

// ---------------------------------------------------------------------------------------------------------------
// in-memory network

#[derive(Clone, Debug, Serialize)]
pub struct NetCall {
    pub conn: usize,
    pub op: &'static str,
    pub req: usize,
    pub res: String,
}

pub struct ConnState {
    pub conn: Conn,
    pub server: Option<Server>,
    pub script_key: Option<u32>,
    pub written: usize,
    pub dns_name: String,
    pub reads: u64,
    pub writes: u64,
    pub short_writes: u64,
    pub reset_fired: bool,
    pub read_before_complete: bool,
    pub continue_sent: bool,
}

pub struct NetState {
    /// keyed by IPP request-id; key 0 is the default
    pub scripts: BTreeMap<u32, Script>,
    pub conns: Vec<ConnState>,
    pub write_sched: Vec<u32>,
    wi: usize,
    pub hash: Fnv,
    pub record: bool,
    pub log: Vec<NetCall>,
}

pub struct MemNet(pub Mutex<NetState>);

impl MemNet {
    pub fn new(scripts: BTreeMap<u32, Script>, write_sched: Vec<u32>, record: bool) -> Arc<MemNet> {
        Arc::new(MemNet(Mutex::new(NetState { scripts, conns: Vec::new(), write_sched, wi: 0, hash: Fnv::default(), record, log: Vec::new() })))
    }
    pub fn dial(self: &Arc<Self>, dns_name: &str) -> usize {
        let mut st = self.0.lock().unwrap();
        st.conns.push(ConnState {
            conn: Conn::new(),
            server: None,
            script_key: None,
            written: 0,
            dns_name: dns_name.to_string(),
            reads: 0,
            writes: 0,
            short_writes: 0,
            reset_fired: false,
            read_before_complete: false,
            continue_sent: false,
        });
        st.conns.len() - 1
    }
    pub fn requests(&self) -> Vec<ReqRecord> {
        self.0.lock().unwrap().conns.iter().map(|c| c.conn.req.clone()).collect()
    }
}

fn request_id_of(body: &[u8]) -> u32 {
    if body.len() >= 8 {
        u32::from_be_bytes([body[4], body[5], body[6], body[7]])
    } else {
        0
    }
}

impl NetState {
    fn note(&mut self, conn: usize, op: &'static str, req: usize, code: u64, n: u64, res: String) {
        self.hash.u64(conn as u64);
        self.hash.u64(req as u64);
        self.hash.u64(code);
        self.hash.u64(n);
        if self.record && self.log.len() < 200 {
            self.log.push(NetCall { conn, op, req, res });
        }
    }

    fn script_for(&self, key: u32) -> (u32, Script) {
        if let Some(s) = self.scripts.get(&key) {
            return (key, s.clone());
        }
        let (k, s) = self.scripts.iter().next().expect("at least one script");
        (*k, s.clone())
    }

    fn default_reset(&self) -> Option<u32> {
        // a reset while the request is being written is decided before the request-id is known: taken from the
        // default script (single-sender runs only)
        if self.scripts.len() == 1 {
            self.scripts.values().next().and_then(|s| s.reset_request_after)
        } else {
            None
        }
    }

    fn write(&mut self, id: usize, buf: &[u8]) -> io::Result<usize> {
        if buf.is_empty() {
            return Ok(0);
        }
        let reset = self.default_reset();
        let sched = if self.write_sched.is_empty() { usize::MAX } else { self.write_sched[self.wi % self.write_sched.len()].max(1) as usize };
        self.wi += 1;
        let written = self.conns[id].written;
        self.conns[id].writes += 1;
        let mut accept = buf.len().min(sched);
        if let Some(r) = reset {
            let r = r as usize;
            if written >= r {
                self.conns[id].reset_fired = true;
                self.note(id, "write", buf.len(), 4, 0, "err:ConnectionReset".into());
                return Err(ErrKind::ConnectionReset.error());
            }
            accept = accept.min(r - written);
        }
        let complete_now = {
            let c = &mut self.conns[id];
            if accept < buf.len() {
                c.short_writes += 1;
            }
            c.conn.feed(&buf[..accept]);
            c.written += accept;
            c.conn.complete() && c.server.is_none()
        };
        if complete_now {
            let key = request_id_of(&self.conns[id].conn.req.body);
            let (k, s) = self.script_for(key);
            let c = &mut self.conns[id];
            c.script_key = Some(k);
            c.server = Some(Server::new(&s));
        }
        self.note(id, "write", buf.len(), 1, accept as u64, format!("ok:{accept}"));
        Ok(accept)
    }

    fn read(&mut self, id: usize, buf: &mut [u8]) -> io::Result<usize> {
        let c = &mut self.conns[id];
        c.reads += 1;
        if buf.is_empty() {
            return Ok(0);
        }
        if c.server.is_none() && c.conn.wants_continue() && !c.continue_sent {
            // a client that announced Expect: 100-continue gets its interim response (once)
            c.continue_sent = true;
            let interim = b"HTTP/1.1 100 Continue\r\n\r\n";
            let k = interim.len().min(buf.len());
            buf[..k].copy_from_slice(&interim[..k]);
            self.note(id, "read", buf.len(), 7, k as u64, "ok:100-continue".into());
            return Ok(k);
        }
        let c = &mut self.conns[id];
        let Some(server) = c.server.as_mut() else {
            // the client reads although it has not sent a complete request: against a real peer this blocks forever
            c.read_before_complete = true;
            self.note(id, "read", buf.len(), 6, 0, "err:read-before-request-complete".into());
            return Err(io::Error::new(io::ErrorKind::TimedOut, "simulated: peer still waits for the request"));
        };
        let (code, n, res, ret) = match server.next(buf.len()) {
            Out::Data(d) => {
                buf[..d.len()].copy_from_slice(&d);
                (1, d.len() as u64, format!("ok:{}", d.len()), Ok(d.len()))
            }
            Out::End => (3, 0, "eof".into(), Ok(0)),
            Out::Cut => (3, 1, "cut".into(), Ok(0)),
            Out::Err(k) => (4, k as u64, format!("err:{k:?}"), Err(k.error())),
            // the peer never answers: what a socket with a read timeout reports
            Out::Stall => (5, 0, "stall:timed-out".into(), Err(io::Error::new(io::ErrorKind::TimedOut, "simulated: read timed out"))),
        };
        self.note(id, "read", buf.len(), code, n, res);
        ret
    }
}

pub struct MemTransport {
    net: Arc<MemNet>,
    id: usize,
    baton: Option<(Arc<Baton>, usize)>,
}

impl fmt::Debug for MemTransport {
    fn fmt(&self, f: &mut fmt::Formatter<'_>) -> fmt::Result {
        write!(f, "MemTransport#{}", self.id)
    }
}

impl Read for MemTransport {
    fn read(&mut self, buf: &mut [u8]) -> io::Result<usize> {
        if let Some((b, t)) = &self.baton {
            b.yield_point(*t);
        }
        self.net.0.lock().unwrap().read(self.id, buf)
    }
}

impl Write for MemTransport {
    fn write(&mut self, buf: &[u8]) -> io::Result<usize> {
        if let Some((b, t)) = &self.baton {
            b.yield_point(*t);
        }
        self.net.0.lock().unwrap().write(self.id, buf)
    }
    fn flush(&mut self) -> io::Result<()> {
        Ok(())
    }
}

impl ureq::ReadWrite for MemTransport {
    fn socket(&self) -> Option<&TcpStream> {
        None
    }
}

/// The connector handed to the blocking client through the ipp_verif hook.
pub struct SimConnector {
    pub net: Arc<MemNet>,
    pub baton: Option<(Arc<Baton>, usize)>,
}

impl ureq::TlsConnector for SimConnector {
    fn connect(&self, dns_name: &str, io: Box<dyn ureq::ReadWrite>) -> Result<Box<dyn ureq::ReadWrite>, ureq::Error> {
        // the real TCP connection to the dummy listener carried zero bytes; abort it (RST) instead of closing it, so
        // that the hundreds of thousands of such connections of a batch leave no TIME_WAIT sockets behind
        if let Some(sock) = io.socket() {
            crate::tcp::set_linger_zero(sock);
        }
        drop(io);
        let id = self.net.dial(dns_name);
        Ok(Box::new(MemTransport { net: self.net.clone(), id, baton: self.baton.clone() }))
    }
}

/// ureq connects a real TCP socket before it calls the connector; a per-process listener accepts and drops them.
pub fn dummy_port() -> u16 {
    static PORT: OnceLock<u16> = OnceLock::new();
    *PORT.get_or_init(|| {
        let l = TcpListener::bind("127.0.0.1:0").expect("bind dummy listener");
        let port = l.local_addr().unwrap().port();
        std::thread::Builder::new()
            .name("sim-dummy-listener".into())
            .spawn(move || {
                for s in l.incoming() {
                    drop(s);
                }
            })
            .expect("spawn dummy listener");
        port
    })
}
