//! Canonical, order-independent form of "what a parser returned", compared by the differential oracles.

use std::{
    collections::BTreeMap,
    panic::{catch_unwind, AssertUnwindSafe},
};

use ipp::{
    attribute::IppAttributes,
    parser::IppParseError,
    value::IppValue,
    IppHeader,
};
use serde::Serialize;

use crate::wire::ErrKind;

#[derive(Clone, Debug, PartialEq, Eq)]
pub struct Parsed {
    pub version: u16,
    pub op: u16,
    pub reqid: u32,
    /// groups in message order; attributes keyed by name (BTreeMap: no hash order in the harness)
    pub groups: Vec<(u8, BTreeMap<String, IppValue>)>,
}

#[derive(Clone, Debug, PartialEq, Eq)]
pub enum Outcome {
    Ok(Parsed),
    InvalidTag(u8),
    InvalidCollection,
    Io(ErrKind),
    Panic(String),
}

impl Outcome {
    pub fn class(&self) -> String {
        match self {
            Outcome::Ok(_) => "Ok".into(),
            Outcome::InvalidTag(t) => format!("InvalidTag({t:#04x})"),
            Outcome::InvalidCollection => "InvalidCollection".into(),
            Outcome::Io(k) => format!("Io({k:?})"),
            Outcome::Panic(m) => format!("Panic({m})"),
        }
    }
    pub fn is_ok(&self) -> bool {
        matches!(self, Outcome::Ok(_))
    }
    pub fn is_err_value(&self) -> bool {
        matches!(self, Outcome::InvalidTag(_) | Outcome::InvalidCollection | Outcome::Io(_))
    }
    pub fn short(&self) -> String {
        match self {
            Outcome::Ok(p) => format!(
                "Ok(v={:#06x} op={:#06x} id={} groups=[{}])",
                p.version,
                p.op,
                p.reqid,
                p.groups
                    .iter()
                    .map(|(t, m)| format!("{t:#04x}:{}", m.len()))
                    .collect::<Vec<_>>()
                    .join(",")
            ),
            o => o.class(),
        }
    }
}

#[derive(Clone, Debug, Serialize)]
pub struct OutcomeSummary {
    pub class: String,
    pub detail: String,
}

pub fn canon(header: &IppHeader, attrs: &IppAttributes) -> Parsed {
    Parsed {
        version: header.version.0,
        op: header.operation_or_status,
        reqid: header.request_id,
        groups: attrs
            .groups()
            .iter()
            .map(|g| {
                (
                    g.tag() as u8,
                    g.attributes()
                        .iter()
                        .map(|(k, a)| (k.clone(), a.value().clone()))
                        .collect::<BTreeMap<_, _>>(),
                )
            })
            .collect(),
    }
}

pub fn from_err(e: &IppParseError) -> Outcome {
    match e {
        IppParseError::InvalidTag(t) => Outcome::InvalidTag(*t),
        IppParseError::InvalidCollection => Outcome::InvalidCollection,
        IppParseError::IoError(e) => Outcome::Io(ErrKind::from_io(e.kind())),
    }
}

pub fn panic_message(p: Box<dyn std::any::Any + Send>) -> String {
    let s = if let Some(s) = p.downcast_ref::<&str>() {
        s.to_string()
    } else if let Some(s) = p.downcast_ref::<String>() {
        s.clone()
    } else {
        "<non-string panic>".to_string()
    };
    // keep the class stable: strip numbers so "range end 5" and "range end 7" are one class
    let mut out = String::new();
    let mut last_digit = false;
    for c in s.chars().take(160) {
        if c.is_ascii_digit() {
            if !last_digit {
                out.push('#');
            }
            last_digit = true;
        } else {
            out.push(c);
            last_digit = false;
        }
    }
    out
}

/// run f, mapping a panic to Err(message)
pub fn guarded<T>(f: impl FnOnce() -> T) -> Result<T, String> {
    catch_unwind(AssertUnwindSafe(f)).map_err(panic_message)
}

pub fn install_quiet_panic_hook() {
    std::panic::set_hook(Box::new(|_| {}));
}
