//! SimPrinter — the simulated peer, sans-IO: an HTTP/1.1 + IPP server as a pure state machine. `Conn::feed` takes the
//! bytes a client wrote, `Response` is the scripted byte stream it answers with (status, framing, segmentation, at
//! most one fault). Drivers (in-memory transport, loopback TCP, loopback TLS) move the bytes.

use serde::{Deserialize, Serialize};

use crate::{
    refcodec::{self, hexbytes, WAttr, WGroup, WMsg, WVal},
    rng::Rng,
    wire::ErrKind,
};

// ---------------------------------------------------------------------------------------------------------------
// request side

#[derive(Clone, Debug, Default, Serialize)]
pub struct ReqRecord {
    pub method: String,
    pub target: String,
    pub version: String,
    /// header names lower-cased, in wire order
    pub headers: Vec<(String, String)>,
    #[serde(skip)]
    pub body: Vec<u8>,
    pub body_len: usize,
    pub chunked: bool,
    pub content_length: Option<usize>,
    pub complete: bool,
    pub raw_len: usize,
    pub chunks_seen: usize,
}

impl ReqRecord {
    pub fn header(&self, name: &str) -> Option<&str> {
        self.headers.iter().find(|(k, _)| k == name).map(|(_, v)| v.as_str())
    }
    pub fn headers_named(&self, name: &str) -> Vec<&str> {
        self.headers.iter().filter(|(k, _)| k == name).map(|(_, v)| v.as_str()).collect()
    }
}

#[derive(Debug, Clone, PartialEq)]
enum St {
    Head,
    Body(usize),
    ChunkSize,
    ChunkData(usize),
    ChunkCrlf,
    Trailers,
    Done,
    Bad(String),
}

/// One HTTP connection as seen by the printer.
pub struct Conn {
    buf: Vec<u8>,
    st: St,
    pub req: ReqRecord,
}

fn find(h: &[u8], n: &[u8]) -> Option<usize> {
    h.windows(n.len()).position(|w| w == n)
}

impl Conn {
    pub fn new() -> Conn {
        Conn { buf: Vec::new(), st: St::Head, req: ReqRecord::default() }
    }
    pub fn complete(&self) -> bool {
        self.st == St::Done
    }
    pub fn bad(&self) -> Option<&str> {
        if let St::Bad(s) = &self.st {
            Some(s)
        } else {
            None
        }
    }
    pub fn head_seen(&self) -> bool {
        !matches!(self.st, St::Head)
    }
    /// the client announced `Expect: 100-continue` and is (legitimately) waiting for the interim response before it
    /// sends the body
    pub fn wants_continue(&self) -> bool {
        self.head_seen() && !self.complete() && self.req.body.is_empty() && self.req.header("expect").map(|v| v.eq_ignore_ascii_case("100-continue")).unwrap_or(false)
    }

    pub fn feed(&mut self, data: &[u8]) {
        self.req.raw_len += data.len();
        self.buf.extend_from_slice(data);
        loop {
            match self.st.clone() {
                St::Head => {
                    let Some(p) = find(&self.buf, b"\r\n\r\n") else { return };
                    let head = String::from_utf8_lossy(&self.buf[..p]).into_owned();
                    self.buf.drain(..p + 4);
                    let mut lines = head.split("\r\n");
                    let rl = lines.next().unwrap_or("");
                    let mut it = rl.splitn(3, ' ');
                    self.req.method = it.next().unwrap_or("").to_string();
                    self.req.target = it.next().unwrap_or("").to_string();
                    self.req.version = it.next().unwrap_or("").to_string();
                    for l in lines {
                        if let Some((k, v)) = l.split_once(':') {
                            self.req.headers.push((k.trim().to_ascii_lowercase(), v.trim().to_string()));
                        } else {
                            self.st = St::Bad(format!("malformed header line {l:?}"));
                            return;
                        }
                    }
                    let te = self.req.header("transfer-encoding").map(|s| s.to_ascii_lowercase());
                    if te.as_deref().map(|s| s.contains("chunked")).unwrap_or(false) {
                        self.req.chunked = true;
                        self.st = St::ChunkSize;
                    } else if let Some(cl) = self.req.header("content-length") {
                        match cl.parse::<usize>() {
                            Ok(n) => {
                                self.req.content_length = Some(n);
                                self.st = if n == 0 { St::Done } else { St::Body(n) };
                            }
                            Err(_) => {
                                self.st = St::Bad("bad content-length".into());
                                return;
                            }
                        }
                    } else {
                        self.st = St::Done;
                    }
                }
                St::Body(rem) => {
                    if self.buf.is_empty() {
                        return;
                    }
                    let k = rem.min(self.buf.len());
                    self.req.body.extend(self.buf.drain(..k));
                    self.st = if rem == k { St::Done } else { St::Body(rem - k) };
                }
                St::ChunkSize => {
                    let Some(p) = find(&self.buf, b"\r\n") else { return };
                    let line = String::from_utf8_lossy(&self.buf[..p]).into_owned();
                    self.buf.drain(..p + 2);
                    let hex = line.split(';').next().unwrap_or("").trim();
                    match usize::from_str_radix(hex, 16) {
                        Ok(0) => self.st = St::Trailers,
                        Ok(n) => {
                            self.req.chunks_seen += 1;
                            self.st = St::ChunkData(n)
                        }
                        Err(_) => {
                            self.st = St::Bad(format!("bad chunk size {line:?}"));
                            return;
                        }
                    }
                }
                St::ChunkData(rem) => {
                    if self.buf.is_empty() {
                        return;
                    }
                    let k = rem.min(self.buf.len());
                    self.req.body.extend(self.buf.drain(..k));
                    self.st = if rem == k { St::ChunkCrlf } else { St::ChunkData(rem - k) };
                }
                St::ChunkCrlf => {
                    if self.buf.len() < 2 {
                        return;
                    }
                    if &self.buf[..2] != b"\r\n" {
                        self.st = St::Bad("chunk not followed by CRLF".into());
                        return;
                    }
                    self.buf.drain(..2);
                    self.st = St::ChunkSize;
                }
                St::Trailers => {
                    let Some(p) = find(&self.buf, b"\r\n") else { return };
                    let empty = p == 0;
                    self.buf.drain(..p + 2);
                    if empty {
                        self.st = St::Done;
                    }
                }
                St::Done => {
                    self.req.complete = true;
                    self.req.body_len = self.req.body.len();
                    return;
                }
                St::Bad(_) => return,
            }
        }
    }
}

// ---------------------------------------------------------------------------------------------------------------
// response side

#[derive(Clone, Debug, PartialEq, Serialize, Deserialize)]
pub enum Framing {
    ContentLength,
    /// chunk sizes, cycled
    Chunked(Vec<u32>),
    CloseDelimited,
}

#[derive(Clone, Copy, Debug, PartialEq, Serialize, Deserialize)]
pub enum FaultAt {
    /// byte offset inside status line + headers
    Head(u32),
    /// offset in the de-framed body (IPP header, attributes, then trailing data)
    Body(u32),
}

#[derive(Clone, Copy, Debug, PartialEq, Serialize, Deserialize)]
pub enum RespFaultKind {
    /// connection closed cleanly by the peer at that point
    Cut,
    /// the transport reports this error at that point
    Err(ErrKind),
    /// the peer stops sending and keeps the connection open
    Stall,
}

#[derive(Clone, Copy, Debug, PartialEq, Serialize, Deserialize)]
pub struct RespFault {
    pub at: FaultAt,
    pub kind: RespFaultKind,
}

#[derive(Clone, Debug, PartialEq, Serialize, Deserialize)]
pub struct Script {
    pub status: u16,
    pub framing: Framing,
    /// IPP header + attributes the printer answers with
    #[serde(with = "hexbytes")]
    pub ipp: Vec<u8>,
    /// trailing document data after the attributes
    #[serde(with = "hexbytes")]
    pub trailing: Vec<u8>,
    /// sizes of the writes the response is cut into (cycled; empty = one write)
    pub segments: Vec<u32>,
    pub fault: Option<RespFault>,
    /// the connection fails (reset) after the client has written this many request bytes
    pub reset_request_after: Option<u32>,
    /// loopback drivers only: pause this many milliseconds before every response segment (a slow, never silent peer)
    #[serde(default)]
    pub drip_ms: u32,
}

pub struct Response {
    pub raw: Vec<u8>,
    pub head_len: usize,
    /// (raw offset, body offset, len) of every run of body bytes in `raw`
    pub body_map: Vec<(usize, usize, usize)>,
    pub body_len: usize,
    /// raw offset at which the fault strikes, if any
    pub fault_raw: Option<usize>,
}

pub fn reason(status: u16) -> &'static str {
    match status {
        200 => "OK",
        400 => "Bad Request",
        401 => "Unauthorized",
        403 => "Forbidden",
        404 => "Not Found",
        405 => "Method Not Allowed",
        408 => "Request Timeout",
        411 => "Length Required",
        413 => "Payload Too Large",
        417 => "Expectation Failed",
        426 => "Upgrade Required",
        429 => "Too Many Requests",
        500 => "Internal Server Error",
        501 => "Not Implemented",
        502 => "Bad Gateway",
        503 => "Service Unavailable",
        504 => "Gateway Timeout",
        505 => "HTTP Version Not Supported",
        _ => "Status",
    }
}

impl Script {
    pub fn body(&self) -> Vec<u8> {
        let mut b = self.ipp.clone();
        b.extend_from_slice(&self.trailing);
        b
    }

    pub fn render(&self) -> Response {
        let body = self.body();
        let mut raw = Vec::new();
        raw.extend_from_slice(format!("HTTP/1.1 {} {}\r\n", self.status, reason(self.status)).as_bytes());
        raw.extend_from_slice(b"Server: simprinter/1\r\nContent-Type: application/ipp\r\n");
        match &self.framing {
            Framing::ContentLength => raw.extend_from_slice(format!("Content-Length: {}\r\n", body.len()).as_bytes()),
            Framing::Chunked(_) => raw.extend_from_slice(b"Transfer-Encoding: chunked\r\n"),
            Framing::CloseDelimited => raw.extend_from_slice(b"Connection: close\r\n"),
        }
        raw.extend_from_slice(b"\r\n");
        let head_len = raw.len();
        let mut body_map = Vec::new();
        match &self.framing {
            Framing::Chunked(sizes) => {
                let mut p = 0usize;
                let mut i = 0usize;
                while p < body.len() {
                    let want = if sizes.is_empty() { body.len() } else { sizes[i % sizes.len()].max(1) as usize };
                    i += 1;
                    let k = want.min(body.len() - p);
                    raw.extend_from_slice(format!("{k:x}\r\n").as_bytes());
                    body_map.push((raw.len(), p, k));
                    raw.extend_from_slice(&body[p..p + k]);
                    raw.extend_from_slice(b"\r\n");
                    p += k;
                }
                raw.extend_from_slice(b"0\r\n\r\n");
            }
            _ => {
                body_map.push((raw.len(), 0, body.len()));
                raw.extend_from_slice(&body);
            }
        }
        let mut r = Response { raw, head_len, body_map, body_len: body.len(), fault_raw: None };
        if let Some(f) = &self.fault {
            r.fault_raw = Some(match f.at {
                FaultAt::Head(k) => (k as usize).min(head_len.saturating_sub(1)),
                FaultAt::Body(k) => r.raw_of_body(k as usize),
            });
        }
        r
    }
}

impl Response {
    /// raw offset at which body byte k is (or would be) sent
    pub fn raw_of_body(&self, k: usize) -> usize {
        for &(raw, b, len) in &self.body_map {
            if k >= b && k < b + len {
                return raw + (k - b);
            }
        }
        // past the body: end of the last data run (for a fault "after everything")
        self.body_map.last().map(|&(raw, _, len)| raw + len).unwrap_or(self.head_len)
    }
}

/// Serves a rendered response in scripted segments, honouring the fault.
pub struct Server {
    pub resp: Response,
    segs: Vec<u32>,
    seg_i: usize,
    pub pos: usize,
    pub fault_kind: Option<RespFaultKind>,
    pub fault_hit: bool,
}

pub enum Out {
    Data(Vec<u8>),
    /// everything sent; the peer closes
    End,
    Cut,
    Err(ErrKind),
    Stall,
}

impl Server {
    pub fn new(script: &Script) -> Server {
        Server { resp: script.render(), segs: script.segments.clone(), seg_i: 0, pos: 0, fault_kind: script.fault.map(|f| f.kind), fault_hit: false }
    }

    /// next output, at most `max` bytes
    pub fn next(&mut self, max: usize) -> Out {
        let lim = self.resp.fault_raw.unwrap_or(usize::MAX).min(self.resp.raw.len());
        if self.pos >= lim {
            if let (Some(_), Some(k)) = (self.resp.fault_raw, self.fault_kind) {
                if self.pos >= self.resp.fault_raw.unwrap() {
                    self.fault_hit = true;
                    return match k {
                        RespFaultKind::Cut => Out::Cut,
                        RespFaultKind::Err(e) => Out::Err(e),
                        RespFaultKind::Stall => Out::Stall,
                    };
                }
            }
            return Out::End;
        }
        let want = if self.segs.is_empty() { usize::MAX } else { self.segs[self.seg_i % self.segs.len()].max(1) as usize };
        self.seg_i += 1;
        let k = want.min(max.max(1)).min(lim - self.pos);
        let d = self.resp.raw[self.pos..self.pos + k].to_vec();
        self.pos += k;
        Out::Data(d)
    }
}

// ---------------------------------------------------------------------------------------------------------------
// script generation

pub fn text_attr(name: &str, tag: u8, v: &[u8]) -> WAttr {
    WAttr { name: name.as_bytes().to_vec(), values: vec![WVal::Scalar { tag, body: v.to_vec() }] }
}

pub fn int_attr(name: &str, tag: u8, v: i32) -> WAttr {
    WAttr { name: name.as_bytes().to_vec(), values: vec![WVal::Scalar { tag, body: v.to_be_bytes().to_vec() }] }
}

/// A well-formed IPP response with a unique token attribute so that a response is attributable to one request.
pub fn ipp_response(rng: &mut Rng, status: u16, reqid: u32, token: &str, extra_groups: Vec<WGroup>) -> Vec<u8> {
    let mut op = vec![text_attr("attributes-charset", 0x47, b"utf-8"), text_attr("attributes-natural-language", 0x48, b"en")];
    op.push(text_attr("x-sim-token", 0x44, token.as_bytes()));
    if rng.chance(1, 2) {
        op.push(text_attr("status-message", 0x41, b"successful-ok"));
    }
    let mut groups = vec![WGroup { tag: 0x01, attrs: op }];
    groups.extend(extra_groups);
    let m = WMsg { version: *rng.pick(&[0x0101u16, 0x0200]), op: status, reqid, groups };
    refcodec::encode(&m).bytes
}

pub const ERROR_STATUSES: [u16; 18] = [400, 401, 403, 404, 405, 408, 411, 413, 417, 426, 429, 500, 501, 502, 503, 504, 505, 599];

pub fn gen_framing(rng: &mut Rng) -> Framing {
    match rng.below(3) {
        0 => Framing::ContentLength,
        1 => {
            let n = rng.usize(0, 4);
            Framing::Chunked((0..n).map(|_| *rng.pick(&[1u32, 2, 3, 7, 16, 100, 4096])).collect())
        }
        _ => Framing::CloseDelimited,
    }
}

pub fn gen_segments(rng: &mut Rng) -> Vec<u32> {
    match rng.below(5) {
        0 => vec![],
        1 => vec![1],
        2 => vec![*rng.pick(&[2u32, 3, 5, 7])],
        3 => (0..rng.usize(2, 6)).map(|_| *rng.pick(&[1u32, 2, 3, 9, 40, 1000])).collect(),
        _ => vec![*rng.pick(&[64u32, 512, 4096, 65536])],
    }
}
