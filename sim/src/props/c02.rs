//! C02 — parsers are total on the bytes a misbehaving peer or a damaged wire can produce: no panic, abort, stack
//! overflow or hang, in parsing and in then displaying, re-encoding, traversing, cloning and dropping the result.
//! Claimed as far as *faults* reach (Byzantine printer + in-flight damage + structural bombs); the (tag x length)
//! grid of the quantifier is not enumerated here (that would be enumeration, not simulation).
//! Every batch runs in isolated worker processes: a child killed by a signal is a finding about one run.

use std::sync::Arc;

use bytes::Bytes;
use ipp::{request::IppRequestResponse, value::IppValue};
use serde::{Deserialize, Serialize};
use serde_json::{json, Value};

use crate::{
    damage,
    drive::{Mode},
    exec::run_scripted,
    framework::{Prop, RunReport, Tier},
    gen::{gen_trace, gen_wmsg, ShapeCfg, TraceOpts, STYLES},
    outcome::{from_err, guarded, Outcome},
    props::common::{shrink_spec, shrink_stream},
    refcodec::{self, hexbytes, Item},
    rng::Rng,
    wire::{SimCore, SourceSpec, SrcHandle},
};

#[derive(Clone, Debug, Serialize, Deserialize)]
pub enum Input {
    Bytes(#[serde(with = "hexbytes")] Vec<u8>),
    /// structural bomb generated from (kind, n) at run time (up to 1 MiB)
    Bomb { kind: String, n: u32 },
    /// deterministic battery of many small inputs enumerated inside one run (not seeded, not simulation: see rule)
    Battery { kind: String, part: u32 },
}

#[derive(Clone, Debug, Serialize, Deserialize)]
pub struct Case {
    pub input: Input,
    pub mode: Mode,
    pub spec: SourceSpec,
    pub style: String,
    pub damage: Vec<String>,
}

#[derive(Clone, Copy)]
pub struct C02;

pub const BOMB_KINDS: [&str; 13] = ["staircase", "nested_with_delimiters", "nested_members", "nested_bare", "nested_unclosed", "nested_in_set", "nested_named_begins", "nested_named_members", "nested_seeded", "wide_set", "many_groups", "many_attrs", "wide_collection"];

fn elem(out: &mut Vec<u8>, tag: u8, name: &[u8], value: &[u8]) {
    out.push(tag);
    out.extend_from_slice(&(name.len() as u16).to_be_bytes());
    out.extend_from_slice(name);
    out.extend_from_slice(&(value.len() as u16).to_be_bytes());
    out.extend_from_slice(value);
}

pub fn bomb(kind: &str, n: u32) -> Vec<u8> {
    let n = n as usize;
    let mut b = vec![0x02, 0x00, 0x00, 0x00, 0x00, 0x00, 0x00, 0x01, 0x04];
    match kind {
        "nested_members" => {
            // a{ m: { m: { ... } } } — well-formed, value depth n
            elem(&mut b, 0x34, b"a", b"");
            for _ in 1..n {
                elem(&mut b, 0x4a, b"", b"m");
                elem(&mut b, 0x34, b"", b"");
            }
            for _ in 0..n {
                elem(&mut b, 0x37, b"", b"");
            }
        }
        "nested_bare" => {
            elem(&mut b, 0x34, b"a", b"");
            for _ in 1..n {
                elem(&mut b, 0x34, b"", b"");
            }
            for _ in 0..n {
                elem(&mut b, 0x37, b"", b"");
            }
        }
        "nested_unclosed" => {
            elem(&mut b, 0x34, b"a", b"");
            for _ in 1..n {
                elem(&mut b, 0x4a, b"", b"m");
                elem(&mut b, 0x34, b"", b"");
            }
        }
        "nested_in_set" => {
            // every level is a 2-element set of collections
            elem(&mut b, 0x34, b"a", b"");
            for _ in 1..n {
                elem(&mut b, 0x4a, b"", b"m");
                elem(&mut b, 0x21, b"", &[0, 0, 0, 1]);
                elem(&mut b, 0x4a, b"", b"n");
                elem(&mut b, 0x34, b"", b"");
            }
            for _ in 0..n {
                elem(&mut b, 0x37, b"", b"");
            }
        }
        "nested_named_begins" => {
            // a misbehaving peer names every inner begCollection
            elem(&mut b, 0x34, b"a", b"");
            for _ in 1..n {
                elem(&mut b, 0x4a, b"", b"m");
                elem(&mut b, 0x34, b"n", b"");
            }
            for _ in 0..n {
                elem(&mut b, 0x37, b"", b"");
            }
        }
        "staircase" => {
            // n levels of unnamed member/begin pairs with a bare group delimiter every 100 levels (nothing named
            // follows the delimiter, so the open collections simply carry on in the next group), a *named* scalar at
            // the bottom, then n ends
            elem(&mut b, 0x34, b"a", b"");
            for i in 1..n {
                if i % 100 == 0 {
                    b.push(if (i / 100) % 2 == 1 { 0x02 } else { 0x04 });
                }
                elem(&mut b, 0x4a, b"", b"k");
                elem(&mut b, 0x34, b"", b"");
            }
            elem(&mut b, 0x4a, b"", b"k");
            elem(&mut b, 0x21, b"z", &[0, 0, 0, 1]);
            for _ in 0..n {
                elem(&mut b, 0x37, b"", b"");
            }
        }
        "nested_with_delimiters" => {
            // a delimiter byte every 100 levels inside the unterminated nesting
            elem(&mut b, 0x34, b"a", b"");
            for i in 1..n {
                if i % 100 == 0 {
                    b.push(0x02);
                    elem(&mut b, 0x34, b"g", b"");
                } else {
                    elem(&mut b, 0x4a, b"", b"m");
                    elem(&mut b, 0x34, b"", b"");
                }
            }
            for _ in 0..n {
                elem(&mut b, 0x37, b"", b"");
            }
        }
        "nested_named_members" => {
            // member names carried in the *name* field of the memberAttrName element
            elem(&mut b, 0x34, b"a", b"");
            for _ in 1..n {
                elem(&mut b, 0x4a, b"m", b"x");
                elem(&mut b, 0x34, b"", b"");
            }
            for _ in 0..n {
                elem(&mut b, 0x37, b"", b"");
            }
        }
        "nested_seeded" => {
            // n is depth and seed: every level draws one of seven shapes (named / unnamed begin, member name in the
            // value or the name field, a scalar sibling, an early end followed by a re-open, a group delimiter inside the
            // open collections)
            let mut x = n as u64 ^ 0x9e37_79b9_7f4a_7c15;
            let depth = 130 + (n % 30_000);
            elem(&mut b, 0x34, b"a", b"");
            let mut open = 1usize;
            for _ in 1..depth {
                let r = crate::rng::splitmix(&mut x) % 9;
                match r {
                    0 => {
                        elem(&mut b, 0x4a, b"", b"m");
                        elem(&mut b, 0x34, b"", b"");
                        open += 1;
                    }
                    1 => {
                        elem(&mut b, 0x4a, b"", b"m");
                        elem(&mut b, 0x34, b"n", b"");
                        open += 1;
                    }
                    2 => {
                        elem(&mut b, 0x4a, b"k", b"");
                        elem(&mut b, 0x34, b"", b"");
                        open += 1;
                    }
                    3 => {
                        elem(&mut b, 0x34, b"", b"");
                        open += 1;
                    }
                    7 => {
                        // a bare group delimiter: nothing named follows, the open collections carry on
                        b.push([0x01u8, 0x02, 0x04, 0x05][(crate::rng::splitmix(&mut x) % 4) as usize]);
                        elem(&mut b, 0x4a, b"", b"m");
                        elem(&mut b, 0x34, b"", b"");
                        open += 1;
                    }
                    8 => {
                        // a named scalar inside the nesting (starts a new attribute while collections are open)
                        elem(&mut b, 0x4a, b"", b"v");
                        elem(&mut b, 0x21, b"z", &[0, 0, 0, 2]);
                        elem(&mut b, 0x4a, b"", b"m");
                        elem(&mut b, 0x34, b"", b"");
                        open += 1;
                    }
                    6 => {
                        // a group delimiter in the middle of the open collections, then the nesting goes on
                        b.push([0x01u8, 0x02, 0x04, 0x05][(crate::rng::splitmix(&mut x) % 4) as usize]);
                        elem(&mut b, 0x34, b"g", b"");
                        open += 1;
                    }
                    4 => {
                        elem(&mut b, 0x4a, b"", b"s");
                        elem(&mut b, 0x21, b"", &[0, 0, 0, 1]);
                        elem(&mut b, 0x4a, b"", b"m");
                        elem(&mut b, 0x34, b"", b"");
                        open += 1;
                    }
                    _ => {
                        if open > 1 {
                            elem(&mut b, 0x37, b"", b"");
                            open -= 1;
                        }
                        elem(&mut b, 0x4a, b"", b"m");
                        elem(&mut b, 0x34, b"q", b"");
                        open += 1;
                    }
                }
            }
            for _ in 0..open {
                elem(&mut b, 0x37, b"", b"");
            }
        }
        "wide_set" => {
            elem(&mut b, 0x21, b"a", &[0, 0, 0, 0]);
            for i in 0..n {
                elem(&mut b, 0x21, b"", &(i as u32).to_be_bytes());
            }
        }
        "many_groups" => {
            for i in 0..n {
                b.push([0x01u8, 0x02, 0x04, 0x05][i % 4]);
            }
        }
        "many_attrs" => {
            for i in 0..n {
                elem(&mut b, 0x22, format!("a{i}").as_bytes(), &[1]);
            }
        }
        _ => {
            elem(&mut b, 0x34, b"a", b"");
            for i in 0..n {
                elem(&mut b, 0x4a, b"", format!("m{i}").as_bytes());
                elem(&mut b, 0x21, b"", &[0, 0, 0, 7]);
            }
            elem(&mut b, 0x37, b"", b"");
        }
    }
    b.push(0x03);
    b
}

const GRID_LENGTHS: [usize; 18] = [0, 1, 2, 3, 4, 5, 6, 7, 8, 9, 10, 11, 12, 13, 14, 15, 16, 0xffff];
const TAIL_FIRST_BYTES: [u8; 13] = [0x01, 0x02, 0x03, 0x21, 0x22, 0x34, 0x35, 0x37, 0x4a, 0x10, 0x4b, 0x00, 0xff];

fn single_attr(tag: u8, value: &[u8]) -> Vec<u8> {
    let mut b = vec![0x01, 0x01, 0x00, 0x00, 0x00, 0x00, 0x00, 0x01, 0x01];
    elem(&mut b, tag, b"a", value);
    b.push(0x03);
    b
}

/// the inputs of one battery part
pub fn battery(kind: &str, part: u32) -> Vec<Vec<u8>> {
    let hdr = [0x01u8, 0x01, 0x00, 0x00, 0x00, 0x00, 0x00, 0x01];
    let mut out = Vec::new();
    match kind {
        // every value tag 0x00-0xff x one value length x three fill patterns, as a single-attribute message
        "grid" => {
            let len = GRID_LENGTHS[part as usize % GRID_LENGTHS.len()];
            for tag in 0..=255u8 {
                for fill in 0..3 {
                    let v: Vec<u8> = (0..len).map(|i| match fill { 0 => 0x00, 1 => 0xff, _ => i as u8 }).collect();
                    out.push(single_attr(tag, &v));
                }
            }
        }
        // every string of up to 2 bytes after a valid header (part 0); 3-byte strings with a chosen first byte
        "tails" => {
            if part == 0 {
                out.push(hdr.to_vec());
                for a in 0..=255u8 {
                    let mut m = hdr.to_vec();
                    m.push(a);
                    out.push(m);
                }
                for a in 0..=255u8 {
                    for b in 0..=255u8 {
                        let mut m = hdr.to_vec();
                        m.push(a);
                        m.push(b);
                        out.push(m);
                    }
                }
            } else {
                let a = TAIL_FIRST_BYTES[(part as usize - 1) % TAIL_FIRST_BYTES.len()];
                for b in 0..=255u8 {
                    for c in 0..=255u8 {
                        let mut m = hdr.to_vec();
                        m.extend_from_slice(&[a, b, c]);
                        out.push(m);
                    }
                }
            }
        }
        // inner length pairs of the with-language syntaxes
        _ => {
            let lens: [u16; 13] = [0, 1, 2, 3, 4, 5, 6, 7, 8, 0x00ff, 0x0100, 0x7fff, 0xffff];
            for tag in [0x35u8, 0x36] {
                for total in 0..=12usize {
                    for l1 in lens {
                        for l2 in lens {
                            let mut v = Vec::new();
                            v.extend_from_slice(&l1.to_be_bytes());
                            v.extend(std::iter::repeat(b'l').take((l1 as usize).min(6)));
                            v.extend_from_slice(&l2.to_be_bytes());
                            v.extend(std::iter::repeat(b't').take((l2 as usize).min(6)));
                            v.resize(total, b'.');
                            out.push(single_attr(tag, &v));
                        }
                    }
                }
            }
        }
    }
    out
}

/// the deterministic batteries that follow the bombs in the run index space
fn batteries(tier: Tier) -> Vec<(&'static str, u32)> {
    let mut v: Vec<(&'static str, u32)> = (0..GRID_LENGTHS.len() as u32).map(|p| ("grid", p)).collect();
    v.push(("tails", 0));
    v.push(("inner_lengths", 0));
    if tier == Tier::Thorough {
        for p in 1..=TAIL_FIRST_BYTES.len() as u32 {
            v.push(("tails", p));
        }
    }
    v
}

/// per tier: the deterministic list of bombs that occupy the first run indices
fn bombs(tier: Tier) -> Vec<(&'static str, u32)> {
    let mut v = Vec::new();
    let depths: &[u32] = match tier {
        Tier::Quick => &[64, 1000, 20_000, 100_000],
        Tier::Thorough => &[8, 64, 129, 500, 1000, 4000, 9000, 20_000, 50_000, 100_000],
    };
    for k in ["nested_members", "nested_bare", "nested_unclosed", "nested_in_set", "nested_named_begins", "nested_named_members", "nested_with_delimiters", "staircase"] {
        for &d in depths {
            // keep every bomb <= 1 MiB
            let per = match k {
                "nested_members" | "nested_unclosed" | "nested_named_members" | "nested_with_delimiters" | "staircase" => 17,
                "nested_named_begins" => 18,
                "nested_in_set" => 31,
                _ => 10,
            };
            v.push((k, d.min((1 << 20) / per)));
        }
    }
    for k in ["wide_set", "many_attrs", "wide_collection"] {
        v.push((k, 1000));
        v.push((k, if k == "wide_set" { 100_000 } else { 60_000 }));
    }
    for i in 0..(if tier == Tier::Thorough { 24u32 } else { 6 }) {
        v.push(("nested_seeded", 7919 * (i + 1)));
    }
    v.push(("many_groups", 1000));
    v.push(("many_groups", 1_000_000));
    v
}

fn traverse(v: &IppValue, steps: &mut u64) {
    *steps += 1;
    match v {
        IppValue::Array(_) | IppValue::Collection(_) => {
            for x in v {
                traverse(x, steps);
            }
        }
        _ => {
            // a scalar yields itself exactly once
            let mut n = 0;
            for _ in v {
                n += 1;
            }
            assert!(n == 1, "scalar iterator yielded {n} items");
        }
    }
}

/// display, re-encode, traverse, clone and drop whatever came back
fn exercise_message(resp: IppRequestResponse) -> u64 {
    let mut steps = 0u64;
    let _ = format!("{:?}", resp.header());
    let _ = resp.header().status_code();
    for g in resp.attributes().groups() {
        for (_n, a) in g.attributes() {
            let v = a.value();
            let s = format!("{v}");
            steps += s.len() as u64 & 1;
            let _ = a.to_bytes();
            traverse(v, &mut steps);
            let c = v.clone();
            drop(c);
        }
    }
    let _ = resp.to_bytes();
    let c = resp.attributes().clone();
    drop(c);
    drop(resp);
    steps
}

fn exercise_value(v: IppValue) -> u64 {
    let mut steps = 0;
    let _ = format!("{v}");
    let _ = v.to_bytes();
    let _ = v.to_tag();
    traverse(&v, &mut steps);
    let c = v.clone();
    drop(c);
    drop(v);
    steps
}

impl Prop for C02 {
    type Case = Case;
    fn id(&self) -> &'static str {
        "C02"
    }
    fn level(&self) -> &'static str {
        "exploration"
    }
    fn default_runs(&self, tier: Tier) -> u64 {
        match tier {
            Tier::Quick => 400_000,
            Tier::Thorough => 12_000_000,
        }
    }

    fn gen(&self, rng: &mut Rng, tier: Tier, run: u64) -> Case {
        let bl = bombs(tier);
        if (run as usize) < bl.len() {
            let (k, n) = bl[run as usize];
            let mode = Mode::ALL[(run % 4) as usize];
            return Case { input: Input::Bomb { kind: k.to_string(), n }, mode, spec: SourceSpec::default(), style: "whole".into(), damage: vec![] };
        }
        let bt = batteries(tier);
        if (run as usize) < bl.len() + bt.len() {
            let (k, p) = bt[run as usize - bl.len()];
            return Case { input: Input::Battery { kind: k.to_string(), part: p }, mode: Mode::SyncParse, spec: SourceSpec::default(), style: "whole".into(), damage: vec![] };
        }
        if rng.chance(1, 4000) {
            let mode = *rng.pick(&Mode::ALL);
            return Case { input: Input::Bomb { kind: "nested_seeded".into(), n: rng.next() as u32 }, mode, spec: SourceSpec::default(), style: "whole".into(), damage: vec![] };
        }
        let mut shape = ShapeCfg::swarm(rng);
        if rng.chance(1, 20) {
            shape.max_depth = 12;
            shape.max_members = 2;
        }
        let w = gen_wmsg(rng, &shape);
        let other = refcodec::encode(&gen_wmsg(rng, &shape));
        let enc = refcodec::encode(&w);
        let (mut bytes, fired) = damage::damage(rng, &enc, &other);
        if rng.chance(1, 3) {
            let n = rng.usize(0, 32);
            bytes.extend(rng.bytes(n)); // trailing document data / garbage
        }
        let mode = *rng.pick(&Mode::ALL);
        let (_, _, toks, _) = refcodec::scan(&bytes);
        let opts = TraceOpts { is_async: mode.is_async(), eintr: rng.chance(1, 2), pend: rng.chance(1, 2), after: true, cross: false, max_events: 2048 };
        let n = bytes.len();
        let (style, trace) = gen_trace(rng, n, n, &toks, &opts);
        Case { input: Input::Bytes(bytes), mode, spec: SourceSpec { trace, fault: None }, style: STYLES[style].to_string(), damage: fired.iter().map(|s| s.to_string()).collect() }
    }

    fn run(&self, case: &Case, record: bool) -> RunReport {
        let mut rep = RunReport::default();
        if let Input::Battery { kind, part } = &case.input {
            let inputs = battery(kind, *part);
            let mut agg = crate::rng::Fnv::default();
            for b in inputs {
                for mode in [Mode::SyncParse, Mode::AsyncParse] {
                    let sub = Case { input: Input::Bytes(b.clone()), mode, spec: SourceSpec::default(), style: "whole".into(), damage: vec![] };
                    let r = self.run(&sub, false);
                    agg.u64(r.trace_hash);
                    rep.count(&format!("battery.{kind}.inputs_x_front_ends"), 1);
                    for (k, v) in &r.counters {
                        if k.starts_with("outcome.") || k.starts_with("value_decoder.") {
                            rep.count(k, *v);
                        }
                    }
                    if let Some(v) = r.violation {
                        rep.violation = Some(v);
                        rep.reduced = serde_json::to_value(&sub).ok();
                        rep.trace_hash = agg.finish();
                        return rep;
                    }
                }
            }
            rep.count(&format!("battery.{kind}.parts_completed"), 1);
            rep.trace_hash = agg.finish();
            rep.nontrivial = true;
            if record {
                rep.log = Some(json!({"battery": kind, "part": part}));
            }
            return rep;
        }
        let bytes = match &case.input {
            Input::Bytes(b) => b.clone(),
            Input::Battery { .. } => unreachable!(),
            Input::Bomb { kind, n } => {
                rep.count(&format!("bomb.{kind}"), 1);
                bomb(kind, *n)
            }
        };
        rep.count("input_bytes", bytes.len() as u64);
        for d in &case.damage {
            rep.count(&format!("damage.{d}"), 1);
        }
        rep.count(&format!("mode_{}", case.mode.name()), 1);
        let data = Arc::new(bytes);
        let core = SimCore::new();
        let src = SrcHandle::new(&core, data.clone(), case.spec.clone());
        src.set_record(record);
        let max_polls = case.spec.trace.len() as u64 * 3 + data.len() as u64 * 2 + 64;

        // phase 1: parse (real front end, scripted delivery), then exercise the result
        let phase1: Result<(Outcome, u64), String> = match case.mode {
            Mode::SyncParse | Mode::SyncParts => {
                let rd = src.reader();
                let parts = case.mode == Mode::SyncParts;
                guarded(move || {
                    if parts {
                        match ipp::parser::IppParser::new(rd).parse_parts() {
                            Err(e) => (from_err(&e), 0),
                            Ok((h, a, _r)) => {
                                let c = crate::outcome::canon(&h, &a);
                                let mut steps = 0;
                                for g in a.groups() {
                                    for (_n, at) in g.attributes() {
                                        steps += exercise_value(at.value().clone());
                                    }
                                }
                                drop(a);
                                (Outcome::Ok(c), steps)
                            }
                        }
                    } else {
                        match ipp::parser::IppParser::new(rd).parse() {
                            Err(e) => (from_err(&e), 0),
                            Ok(resp) => {
                                let c = crate::outcome::canon(resp.header(), resp.attributes());
                                let steps = exercise_message(resp);
                                (Outcome::Ok(c), steps)
                            }
                        }
                    }
                })
            }
            Mode::AsyncParse | Mode::AsyncParts => {
                let rd = src.async_reader();
                let core2 = core.clone();
                guarded(move || {
                    let fut = async move {
                        match ipp::parser::AsyncIppParser::new(rd).parse().await {
                            Err(e) => (from_err(&e), 0),
                            Ok(resp) => {
                                let c = crate::outcome::canon(resp.header(), resp.attributes());
                                let steps = exercise_message(resp);
                                (Outcome::Ok(c), steps)
                            }
                        }
                    };
                    run_scripted(&core2, fut, max_polls)
                })
                .and_then(|(r, _st)| match r {
                    Ok(x) => Ok(x),
                    Err(v) => Err(format!("executor invariant: {v:?}")),
                })
            }
        };
        let st = src.stats();
        rep.count("source_calls", st.calls);
        rep.count("eintr_fired", st.eintr);
        rep.count("pending_fired", st.pend_inline + st.pend_after);
        rep.count("short_reads", st.short_gives);
        rep.trace_hash = {
            let mut f = crate::rng::Fnv::default();
            f.u64(src.trace_hash());
            f.u64(case.mode as u64);
            f.bytes(&data[..data.len().min(4096)]);
            f.u64(data.len() as u64);
            f.finish()
        };
        match &phase1 {
            Err(p) => {
                if p.starts_with("executor invariant") {
                    rep.violate("executor-invariant", p.clone());
                } else {
                    rep.violate(&format!("panic: {p}"), format!("{} panicked: {p}", case.mode.name()));
                }
            }
            Ok((o, steps)) => {
                let outcome_class = o.class().split('(').next().unwrap_or("?").to_string();
                rep.count(&format!("outcome.{outcome_class}"), 1);
                rep.count("exercise_steps", *steps);
            }
        }
        // bounded steps: every source call consumes an event, delivers >= 1 byte, or reports EOF
        let bound = 2 * data.len() as u64 + case.spec.trace.len() as u64 + 64;
        if st.calls > bound {
            rep.violate("unbounded-source-reads", format!("{} source calls for {} input bytes and {} schedule events", st.calls, data.len(), case.spec.trace.len()));
        }
        let after_eof = src.0.lock().unwrap().reads_after_eof;
        if after_eof > 8 {
            rep.violate("unbounded-source-reads", format!("{after_eof} reads after end-of-stream was reported"));
        }

        // phase 2: the stand-alone value decoder on every (tag, value) element that can still be cut out
        let mut decoded = 0u64;
        if rep.violation.is_none() {
            let (_, items, _, _) = refcodec::scan(&data);
            for it in items.iter().take(4096) {
                if let Item::Elem(e) = it {
                    let tag = e.tag;
                    let val = Bytes::from(e.value.clone());
                    decoded += 1;
                    match guarded(move || IppValue::parse(tag, val).map(exercise_value)) {
                        Ok(Ok(_)) => rep.count("value_decoder.ok", 1),
                        Ok(Err(_)) => rep.count("value_decoder.err", 1),
                        Err(p) => {
                            rep.violate(&format!("panic: {p}"), format!("IppValue::parse(tag={tag:#04x}, {} value bytes) panicked: {p}", e.value.len()));
                            break;
                        }
                    }
                }
            }
        }
        rep.count("value_decoder_calls", decoded);
        rep.nontrivial = data.len() > 9 && (matches!(case.input, Input::Bomb { .. }) || !case.damage.is_empty());
        if record {
            rep.log = Some(json!({"input_len": data.len(), "mode": case.mode.name(), "outcome": match &phase1 { Ok((o, _)) => o.short(), Err(p) => format!("panic: {p}") }, "source_calls": st.calls, "value_decoder_calls": decoded, "first_bytes": hexbytes::to_hex(&data[..data.len().min(64)])}));
        }
        rep
    }

    fn shrink(&self, c: &Case) -> Vec<Case> {
        let mut out = Vec::new();
        match &c.input {
            Input::Battery { .. } => {}
            Input::Bomb { kind, n } => {
                for m in [n / 2, n * 3 / 4, n * 7 / 8] {
                    if m >= 1 && m < *n {
                        out.push(Case { input: Input::Bomb { kind: kind.clone(), n: m }, ..c.clone() });
                    }
                }
            }
            Input::Bytes(b) => {
                for spec in shrink_spec(&c.spec) {
                    out.push(Case { spec, ..c.clone() });
                }
                for s in shrink_stream(&crate::gen::Stream::Raw(b.clone())) {
                    if let crate::gen::Stream::Raw(nb) = s {
                        out.push(Case { input: Input::Bytes(nb), ..c.clone() });
                    }
                }
            }
        }
        out
    }

    fn stack_size(&self) -> usize {
        2 * 1024 * 1024 // the default main/spawned thread stack a client application would have
    }
    fn isolated(&self) -> bool {
        true
    }
    fn sample_runs(&self, tier: Tier) -> Vec<u64> {
        // one bomb and the first two seeded damaged streams
        let b = (bombs(tier).len() + batteries(tier).len()) as u64;
        vec![0, b, b + 1]
    }

    fn rule(&self) -> String {
        "Fault-reachable inputs only: each run takes a reference-encoded seeded wire tree and applies 1-3 faults from a per-run random subset of 20 kinds (Byzantine printer: lying name/value lengths (+-1, 0, max, swallow-next), fixed-width values written with width 0-16, lying inner lengths of the with-language syntaxes, tag substitution by any byte, token delete / duplicate / swap / splice from another message, collection imbalance; in-flight: bit flips, byte overwrite, truncation with/without garbage tail, chunk drop / duplication / swap, garbage insertion), plus a fixed list of structural bombs per tier (nesting depth up to 100000 / 1 MiB in six shapes incl. named inner begins, member names in the name field and seeded mixes of shapes; set width, group and attribute count). The damaged stream is delivered under a seeded schedule to one of the four parser front ends; whatever comes back is displayed, re-encoded, traversed, cloned and dropped; then IppValue::parse is called on every (tag, value) element the reference tokenizer can still cut out. Runs execute on 2 MiB threads inside isolated worker processes; a killed worker is attributed to the run it was executing. Invariants: no panic, no process death, source calls <= 2*len + events + 64, <= 8 reads after EOF, executor poll bound, 240 s watchdog. distinct_nontrivial = distinct hashes of (input bytes prefix+length, front end, source call sequence) among damaged or bomb inputs longer than 9 bytes. After the bombs come deterministic batteries that are plain enumeration, not simulation, and are not what the level is claimed on: every value tag 0x00-0xff x value length {0..16, 0xffff} x three fill patterns as a single-attribute message; every string of up to 2 bytes (thorough: 3 bytes with 13 chosen first bytes) after a valid header; the inner length pairs of the with-language syntaxes — each through the blocking and the async parser and the value decoder. NOT covered: the all-token-sequences-up-to-k enumeration of the quantifier."
            .into()
    }
    fn assumptions(&self) -> Vec<String> {
        vec![
            "partial claim: sampled faults, not the enumeration grid of the quantifier".into(),
            "stack size 2 MiB (Rust's default for spawned threads); 'stack overflow' is judged at that size".into(),
            "counters of a worker process that died are lost for the runs it had completed since its start (the fatal run itself is reported)".into(),
        ]
    }
    fn components(&self) -> Value {
        json!({
            "real": ["ipp::parser::IppParser", "ipp::parser::AsyncIppParser", "ipp::reader::*", "ParserState", "IppValue::parse / to_bytes / to_tag / Display / Clone / Drop / IntoIterator", "IppRequestResponse::to_bytes", "IppAttribute::to_bytes"],
            "simulated": ["misbehaving peer and wire (damage fault models)", "byte source + delivery schedule", "executor", "process boundary (isolated workers)"],
            "stubbed": []
        })
    }
}
