//! C05 — the async parser is observationally identical to the blocking parser, for every byte stream and every
//! delivery schedule (chunking, not-ready results, wake timing, spurious polls, identical faults on both sides).

use std::{collections::BTreeMap, sync::Arc};

use serde::{Deserialize, Serialize};
use serde_json::{json, Value};

use crate::{
    damage,
    drive::{run_parser, Mode},
    framework::{Prop, RunReport, Tier},
    gen::{gen_payload, gen_stream, gen_trace, gen_wmsg, ShapeCfg, Stream, TraceOpts, STYLES},
    outcome::Outcome,
    props::common::{reach_counters, shrink_payload, shrink_spec, shrink_stream},
    refcodec::{self, hexbytes},
    rng::Rng,
    wire::{ErrKind, Fault, FaultKind, SimCore, SourceSpec, SrcHandle},
};

#[derive(Clone, Debug, Serialize, Deserialize)]
pub struct Case {
    pub stream: Stream,
    #[serde(with = "hexbytes")]
    pub payload: Vec<u8>,
    /// parse_parts instead of parse
    pub parts: bool,
    /// schedule of the async side; `fault` (if any) is applied identically to both sides
    pub spec: SourceSpec,
    pub style: String,
    pub damage: Vec<String>,
    /// > 0: when the whole stream is at most this long, ALL 2^(n-1) compositions are enumerated in this run (twice:
    /// plain, and with a not-ready result before every chunk)
    #[serde(default)]
    pub all_compositions: u8,
    /// every second poll of the async side runs on a fresh OS thread (task migration)
    #[serde(default)]
    pub migrate: bool,
}

#[derive(Clone, Copy)]
pub struct C05;

impl Prop for C05 {
    type Case = Case;
    fn id(&self) -> &'static str {
        "C05"
    }
    fn level(&self) -> &'static str {
        "exploration"
    }
    fn default_runs(&self, tier: Tier) -> u64 {
        match tier {
            Tier::Quick => 300_000,
            Tier::Thorough => 12_000_000,
        }
    }

    fn gen(&self, rng: &mut Rng, tier: Tier, _run: u64) -> Case {
        let sweep = rng.chance(1, 40);
        let tiny = sweep || rng.chance(1, 6);
        let shape = if tiny { ShapeCfg::tiny() } else { ShapeCfg::swarm(rng) };
        let mut damage_fired: Vec<String> = Vec::new();
        let deep = !sweep && rng.chance(1, 40);
        let many = !sweep && !deep && rng.chance(1, 1500);
        let (stream, head_len, toks) = match if deep { 99 } else if many { 98 } else { rng.below(10) } {
            // (f) a message with a very large NUMBER of tags (tiny values): counts around 2^16 and 2^17 and beyond -
            // anything a front end does "every n-th tag / value / read" shows here
            98 => {
                let n = match rng.below(6) {
                    0 => 65_535u32,
                    1 => 65_536,
                    2 => 65_537,
                    3 => 131_073,
                    _ => rng.range(60_000, 140_000) as u32,
                };
                let mut bytes = vec![1u8, 1, 0, 2, 0, 0, 0, 1, 0x01];
                bytes.extend_from_slice(&[0x21, 0, 1, b'a', 0, 4, 0, 0, 0, 0]);
                let mut tags = 3u32; // group tag, first value, end tag
                let mut k = 0u32;
                while tags < n {
                    if k % 1000 == 999 {
                        // a new attribute now and then (its own name), the rest are additional values
                        let name = format!("n{k}");
                        bytes.push(0x21);
                        bytes.extend_from_slice(&(name.len() as u16).to_be_bytes());
                        bytes.extend_from_slice(name.as_bytes());
                    } else {
                        bytes.extend_from_slice(&[0x21, 0, 0]);
                    }
                    bytes.extend_from_slice(&[0, 4]);
                    bytes.extend_from_slice(&k.to_be_bytes());
                    tags += 1;
                    k += 1;
                }
                bytes.push(0x03);
                damage_fired.push("very_many_tags".to_string());
                let n = bytes.len();
                (Stream::Raw(bytes), n, Vec::new())
            }
            // (e) nesting that straddles the parser's depth limit, usually cut within a few bytes of the level where the
            // limit applies (both front ends must fail the same way, in the same order of checks)
            99 => {
                let kind = *rng.pick(&["nested_members", "nested_named_begins", "nested_named_members", "nested_in_set", "nested_bare"]);
                let depth = rng.range(120, 140) as u32;
                let mut bytes = crate::props::c02::bomb(kind, depth);
                let (_, _, toks, _) = refcodec::scan(&bytes);
                if rng.chance(3, 4) {
                    if let Some(t) = toks.iter().find(|t| t.depth >= 127) {
                        let lo = t.start.saturating_sub(30);
                        let hi = (t.start + 60).min(bytes.len() - 1);
                        let cut = rng.usize(lo, hi.max(lo));
                        bytes.truncate(cut);
                    }
                }
                damage_fired.push("deep_nesting_at_limit".to_string());
                let (_, _, toks, _) = refcodec::scan(&bytes);
                let n = bytes.len();
                (Stream::Raw(bytes), n, toks)
            }
            // (c) damaged reference-encoded stream
            0..=3 => {
                let w = gen_wmsg(rng, &shape);
                let other = refcodec::encode(&gen_wmsg(rng, &shape));
                let enc = refcodec::encode(&w);
                let (bytes, fired) = damage::damage(rng, &enc, &other);
                damage_fired = fired.iter().map(|s| s.to_string()).collect();
                let (_, _, toks, _) = refcodec::scan(&bytes);
                let n = bytes.len();
                (Stream::Raw(bytes), n, toks)
            }
            // (a)/(b) well-formed
            _ => {
                let s = gen_stream(rng, &shape);
                match &s {
                    Stream::Wire(w) => {
                        let e = refcodec::encode(w);
                        let n = e.bytes.len();
                        (s, n, e.toks)
                    }
                    other => {
                        let n = other.materialize().len();
                        (s, n, Vec::new())
                    }
                }
            }
        };
        let max_payload = if rng.chance(1, 300) { 65536 } else { 1024 };
        let payload = if sweep {
            {
                let n = rng.usize(0, 2);
                rng.bytes(n)
            }
        } else if tiny && rng.chance(1, 2) {
            vec![]
        } else {
            gen_payload(rng, max_payload)
        };
        let total = head_len + payload.len();
        let opts = TraceOpts { is_async: true, eintr: false, pend: rng.chance(4, 5), after: true, cross: false, max_events: 4096 };
        let (style, mut trace) = gen_trace(rng, head_len, total, &toks, &opts);
        crate::gen::add_rare_events(rng, &mut trace, &opts, false);
        let fault = if rng.chance(1, 5) && total > 0 {
            let at = if rng.chance(3, 4) { rng.usize(0, head_len.max(1) - 0).min(total) } else { rng.usize(0, total) } as u64;
            let kind = if rng.chance(1, 3) { FaultKind::Eof } else { FaultKind::Err(*rng.pick(&ErrKind::INJECTABLE)) };
            let once = matches!(kind, FaultKind::Err(_)) && rng.chance(1, 3);
            Some(Fault { at, kind, once, os: rng.chance(1, 2) })
        } else {
            None
        };
        let all_compositions = if sweep { if tier == Tier::Thorough { 17 } else { 14 } } else { 0 };
        Case { stream, payload, parts: rng.chance(1, 3), spec: SourceSpec { trace, fault }, style: STYLES[style].to_string(), damage: damage_fired, all_compositions, migrate: !sweep && rng.chance(1, 8) }
    }

    fn run(&self, case: &Case, record: bool) -> RunReport {
        let mut rep = RunReport::default();
        let head = case.stream.materialize();
        let (_, _, toks, _) = refcodec::scan(&head);
        let mut all = head.clone();
        all.extend_from_slice(&case.payload);
        let data = Arc::new(all);
        let cap = data.len() + 16;

        // blocking side: always ready, unfragmented, same fault
        let core_b = SimCore::new();
        let src_b = SrcHandle::new(&core_b, data.clone(), SourceSpec { trace: vec![], fault: case.spec.fault });
        let mode_b = if case.parts { Mode::SyncParts } else { Mode::SyncParse };
        let b = run_parser(&core_b, &src_b, mode_b, 0, true, &[], cap);

        // exhaustive tier for short streams: every composition into chunks, plain and with a not-ready result
        // (alternately inline / deferred wake) before every chunk
        let n = data.len();
        if case.all_compositions > 0 && n >= 1 && n <= case.all_compositions as usize {
            let mode_a = if case.parts { Mode::AsyncParts } else { Mode::AsyncParse };
            let mut enumerated = 0u64;
            'sweep: for pass in 0..2 {
                for mask in 0..(1u32 << (n - 1)) {
                    let mut trace = Vec::new();
                    let mut len = 1u32;
                    let mut k = 0u32;
                    let mut push = |trace: &mut Vec<crate::wire::Ev>, len: u32| {
                        if pass == 1 {
                            let wake = if k % 2 == 0 { crate::wire::Wake::Inline } else { crate::wire::Wake::After(1) };
                            trace.push(crate::wire::Ev::Pend { wake, spurious: 0 });
                            k += 1;
                        }
                        trace.push(crate::wire::Ev::Give(len));
                    };
                    for bit in 0..(n - 1) {
                        if mask & (1 << bit) != 0 {
                            push(&mut trace, len);
                            len = 1;
                        } else {
                            len += 1;
                        }
                    }
                    push(&mut trace, len);
                    let core = SimCore::new();
                    let spec = SourceSpec { trace, fault: case.spec.fault };
                    let src = SrcHandle::new(&core, data.clone(), spec.clone());
                    let a = run_parser(&core, &src, mode_a, 8 * n as u64 + 64, true, &[], cap);
                    enumerated += 1;
                    let same_payload = match (&a.payload, &b.payload) {
                        (Some(x), Some(y)) => x.bytes == y.bytes && x.err == y.err,
                        (None, None) => true,
                        _ => false,
                    };
                    if a.exec_violation.is_some() || a.outcome != b.outcome || !same_payload {
                        let class = if a.exec_violation.is_some() {
                            "executor-lost-wake"
                        } else {
                            match (&a.outcome, &b.outcome) {
                                (Outcome::Ok(_), Outcome::Ok(_)) if a.outcome == b.outcome => "trailing-data-differs",
                                (Outcome::Ok(_), Outcome::Ok(_)) => "content-differs",
                                (Outcome::Ok(_), _) => "async-accepts-blocking-rejects",
                                (_, Outcome::Ok(_)) => "async-rejects-blocking-accepts",
                                _ => "error-kind-differs",
                            }
                        };
                        rep.violate(class, format!("composition mask {mask:#x} (pass {pass}) of a {n}-byte stream: async: {} | blocking: {}", a.outcome.short(), b.outcome.short()));
                        let single = Case { spec, all_compositions: 0, ..case.clone() };
                        rep.reduced = serde_json::to_value(&single).ok();
                        break 'sweep;
                    }
                }
            }
            rep.count("streams_with_every_composition_enumerated", 1);
            rep.count("compositions_enumerated", enumerated);
            if rep.violation.is_some() {
                return rep;
            }
        }

        // async side: scripted schedule
        let core_a = SimCore::new();
        let src_a = SrcHandle::new(&core_a, data.clone(), case.spec.clone());
        src_a.set_record(record);
        src_a.set_track(true);
        let mode_a = if case.parts { Mode::AsyncParts } else { Mode::AsyncParse };
        let max_polls = case.spec.trace.len() as u64 * 3 + data.len() as u64 * 2 + 64;
        crate::exec::MIGRATE.with(|m| m.set(case.migrate));
        let a = run_parser(&core_a, &src_a, mode_a, max_polls, true, &[], cap);
        crate::exec::MIGRATE.with(|m| m.set(false));
        rep.count("executor_polls_on_a_fresh_thread", a.exec.migrated_polls);

        rep.count(if case.parts { "entry_parse_parts" } else { "entry_parse" }, 1);
        rep.count(&format!("style_{}", case.style), 1);
        rep.count(&format!("stream_{}", case.stream.kind()), 1);
        for d in &case.damage {
            rep.count(&format!("damage.{d}"), 1);
        }
        rep.count(&format!("blocking_outcome.{}", b.outcome.class().split('(').next().unwrap_or("?")), 1);
        if head.len() <= 24 {
            rep.count("tiny_stream_le_24_bytes", 1);
        }
        let st = src_a.stats();
        rep.count("source_polls", st.calls);
        rep.count("chunks_delivered", st.gives);
        rep.count("short_reads", st.short_gives);
        rep.count("pending_inline_fired", st.pend_inline);
        rep.count("pending_deferred_fired", st.pend_after);
        rep.count("polled_while_blocked", st.blocked_polls);
        rep.count("fault_eof_hit", st.fault_eof_hits);
        rep.count("fault_error_hit", st.fault_err_hits);
        rep.count("executor_polls", a.exec.polls);
        rep.count("executor_spurious_polls", a.exec.spurious_polls);
        rep.count("executor_ticks", a.exec.ticks);
        let (cuts, pends) = {
            let g = src_a.0.lock().unwrap();
            (g.cut_positions.clone(), g.pend_positions.clone())
        };
        let consumed = a.consumed_at_return.min(head.len());
        reach_counters(&mut rep, &toks, consumed, &cuts, &[], &pends);
        rep.nontrivial = consumed >= 9 && (cuts.iter().any(|&c| (c as usize) < consumed) || pends.iter().any(|&c| (c as usize) < consumed && c > 0));
        rep.trace_hash = {
            let mut f = crate::rng::Fnv::default();
            f.u64(src_a.trace_hash());
            f.u64(case.parts as u64);
            f.finish()
        };
        if record {
            let calls: Vec<_> = src_a.log().into_iter().take(48).collect();
            rep.log = Some(json!({
                "stream_len": head.len(), "payload_len": case.payload.len(),
                "blocking": {"outcome": b.outcome.short(), "consumed": b.consumed_at_return, "payload": b.payload.as_ref().map(|d| json!({"len": d.bytes.len(), "err": d.err.map(|e| format!("{e:?}"))}))},
                "async": {"outcome": a.outcome.short(), "consumed": a.consumed_at_return, "payload": a.payload.as_ref().map(|d| json!({"len": d.bytes.len(), "err": d.err.map(|e| format!("{e:?}"))})), "exec": a.exec},
                "async_source_calls_first_48": calls,
            }));
        }
        if let Some(v) = a.exec_violation {
            rep.violate(
                &format!("executor-{}", match v { crate::exec::ExecViolation::LostWake { .. } => "lost-wake", _ => "livelock" }),
                format!("{v:?}; blocking side: {}", b.outcome.short()),
            );
            return rep;
        }
        if a.outcome != b.outcome {
            let class = match (&a.outcome, &b.outcome) {
                (Outcome::Ok(_), Outcome::Ok(_)) => "content-differs",
                (Outcome::Ok(_), _) => "async-accepts-blocking-rejects",
                (_, Outcome::Ok(_)) => "async-rejects-blocking-accepts",
                _ => "error-kind-differs",
            };
            rep.violate(class, format!("async: {} | blocking: {}", a.outcome.short(), b.outcome.short()));
            return rep;
        }
        match (&a.payload, &b.payload) {
            (Some(pa), Some(pb)) => {
                if pa.bytes != pb.bytes || pa.err != pb.err {
                    rep.violate(
                        "trailing-data-differs",
                        format!("async payload {} bytes err={:?} | blocking payload {} bytes err={:?}", pa.bytes.len(), pa.err, pb.bytes.len(), pb.err),
                    );
                }
            }
            (None, None) => {}
            _ => rep.violate("trailing-data-differs", "one side produced a payload, the other did not".into()),
        }
        rep
    }

    fn shrink(&self, c: &Case) -> Vec<Case> {
        let mut out = Vec::new();
        for spec in shrink_spec(&c.spec) {
            out.push(Case { spec, ..c.clone() });
        }
        if c.spec.fault.is_some() {
            out.push(Case { spec: SourceSpec { trace: c.spec.trace.clone(), fault: None }, ..c.clone() });
        }
        if c.migrate {
            out.push(Case { migrate: false, ..c.clone() });
        }
        for payload in shrink_payload(&c.payload) {
            out.push(Case { payload, ..c.clone() });
        }
        // position-dependent failures rarely survive a smaller stream under the *same* cut positions: also try every
        // smaller stream under byte-at-a-time delivery
        let ones = crate::props::common::ones_spec(&c.spec);
        if c.spec.trace != ones.trace {
            out.push(Case { spec: ones.clone(), ..c.clone() });
        }
        for stream in shrink_stream(&c.stream) {
            out.push(Case { stream: stream.clone(), ..c.clone() });
            out.push(Case { stream, spec: ones.clone(), ..c.clone() });
        }
        out
    }

    fn rule(&self) -> String {
        "Each run: a seeded byte stream — (a) crate-encoded model message, (b) reference-encoded wire tree incl. forms the crate never emits, (c) either damaged by 1-3 Byzantine-printer / in-flight faults (so malformed and truncated streams are in the corpus), (d) tiny messages, (e) 1 run in 40: collections nested 120-140 deep (straddling the parser's depth limit), mostly cut within a few bytes of the level where the limit applies — plus payload; 1 run in 40 takes a stream of at most 14 (quick) / 17 (thorough) bytes and enumerates ALL 2^(n-1) compositions of it, plain and with a not-ready result before every chunk ('compositions_enumerated'). The blocking parser reads it unfragmented and always ready; the async parser reads the same bytes under a seeded schedule (composition into chunks, Pending with inline/deferred wake, spurious polls) on the scripted executor; an optional identical fault (EOF or I/O error kind at a byte offset) is applied to both. Oracle: equal outcome (content, offending tag, I/O kind, panic class) and equal trailing data, for parse and parse_parts; executor invariants (no lost wake-up, bounded polls). distinct_nontrivial = distinct hashes of the async source's observed call sequence among runs where a chunk boundary or Pending fell strictly inside the bytes the parser consumed (>= 9 consumed)."
            .into()
    }
    fn assumptions(&self) -> Vec<String> {
        vec![
            "sampled schedules and streams; exhaustive enumeration of all 2^(n-1) compositions is not claimed".into(),
            "nesting depth of generated streams is <= 5 except workload (e) at 120-140 levels, far below what a 2 MiB stack tolerates, so the stack-depth clause of C02 cannot interfere".into(),
        ]
    }
    fn components(&self) -> Value {
        json!({
            "real": ["ipp::parser::AsyncIppParser", "ipp::parser::IppParser", "ipp::reader::AsyncIppReader", "ipp::reader::IppReader", "ParserState", "IppValue::parse", "ipp::payload::IppPayload", "futures_util read_exact", "std read_exact"],
            "simulated": ["byte sources", "executor and wakers", "hash keys"],
            "stubbed": []
        })
    }
    fn extra_coverage(&self, counters: &BTreeMap<String, u64>) -> Value {
        crate::props::common::reach_matrix(counters)
    }
}
