//! C06 — parsing consumes exactly the message; fragmentation (and EINTR for the blocking reader) never changes it.

use std::{collections::BTreeMap, sync::Arc};

use serde::{Deserialize, Serialize};
use serde_json::{json, Value};

use crate::{
    drive::{reference, run_parser_opt, Mode},
    framework::{Prop, RunReport, Tier},
    gen::{self, gen_payload, gen_stream, gen_trace, ShapeCfg, Stream, TraceOpts, STYLES},
    outcome::Outcome,
    props::common::{shrink_payload, shrink_spec, shrink_stream, reach_counters},
    refcodec::{self, hexbytes, TokClass},
    rng::Rng,
    wire::{ErrKind, Fault, FaultKind, SimCore, SourceSpec, SrcHandle},
};

#[derive(Clone, Debug, Serialize, Deserialize)]
pub struct Case {
    pub stream: Stream,
    #[serde(with = "hexbytes")]
    pub payload: Vec<u8>,
    pub mode: Mode,
    pub spec: SourceSpec,
    pub style: String,
    /// buggify: a sticky I/O error sits exactly at the first payload byte; a correct parser never touches it
    pub boundary_fault: bool,
    pub payload_buf_sizes: Vec<u32>,
    /// parse_parts modes: read the rest through reader.into_payload() instead of reader.into_inner()
    #[serde(default)]
    pub parts_into_payload: bool,
    /// parse() modes: read the payload through the *other* interface (blocking parse -> AsyncRead, async parse ->
    /// blocking Read over the real block_on bridge); the schedule then only uses wakes that are legal under block_on
    #[serde(default)]
    pub cross_payload: bool,
    /// async modes: every second poll runs on a fresh OS thread (task migration)
    #[serde(default)]
    pub migrate: bool,
    /// how the caller reads the payload: 0 plain reads, 1 vectored reads, 2 first reads through one interface of the
    /// payload and the rest through the other, 3 the response moves to another OS thread between blocking reads
    #[serde(default)]
    pub quirk: u8,
}

#[derive(Clone, Copy)]
pub struct C06;

impl Prop for C06 {
    type Case = Case;
    fn id(&self) -> &'static str {
        "C06"
    }
    fn level(&self) -> &'static str {
        "exploration"
    }
    fn default_runs(&self, tier: Tier) -> u64 {
        match tier {
            Tier::Quick => 300_000,
            Tier::Thorough => 12_000_000,
        }
    }

    fn gen(&self, rng: &mut Rng, tier: Tier, _run: u64) -> Case {
        let shape = if rng.chance(1, 10) { ShapeCfg::tiny() } else { ShapeCfg::swarm(rng) };
        let stream = gen_stream(rng, &shape);
        let max_payload = match tier {
            Tier::Quick => {
                if rng.chance(1, 200) {
                    65536
                } else {
                    2048
                }
            }
            Tier::Thorough => {
                if rng.chance(1, 2000) {
                    4 << 20
                } else if rng.chance(1, 100) {
                    65536
                } else {
                    2048
                }
            }
        };
        let payload = gen_payload(rng, max_payload);
        let mode = *rng.pick(&Mode::ALL);
        let cross_payload = matches!(mode, Mode::SyncParse | Mode::AsyncParse) && rng.chance(1, 3);
        // the schedule is generated against the reference encoding's token map; for model streams the order of
        // attributes (not their total length) depends on hash keys, so offsets stay meaningful as positions
        // the token map steers the "token_edges" schedule style; it is only taken from reference-encoded streams
        // (for crate-encoded ones attribute *order* depends on hash keys; their length does not)
        let (head_len, toks) = match &stream {
            Stream::Wire(w) => {
                let e = refcodec::encode(w);
                (e.bytes.len(), e.toks)
            }
            other => (other.materialize().len(), Vec::new()),
        };
        let total = head_len + payload.len();
        let opts = TraceOpts {
            is_async: mode.is_async(),
            eintr: rng.chance(3, 4),
            pend: rng.chance(3, 4),
            after: !cross_payload,
            cross: cross_payload,
            max_events: 4096,
        };
        let (style, mut trace) = gen_trace(rng, head_len, total, &toks, &opts);
        crate::gen::add_rare_events(rng, &mut trace, &opts, true);
        let quirk = if !rng.chance(1, 4) {
            crate::drive::QUIRK_NONE
        } else if cross_payload {
            *rng.pick(&[crate::drive::QUIRK_VECTORED, crate::drive::QUIRK_MIXED, crate::drive::QUIRK_MIXED, if mode == Mode::AsyncParse { crate::drive::QUIRK_HANDOVER } else { crate::drive::QUIRK_MIXED }])
        } else {
            crate::drive::QUIRK_VECTORED
        };
        let boundary_fault = rng.chance(1, 8);
        let n_sizes = rng.usize(0, 4);
        let payload_buf_sizes = (0..n_sizes).map(|_| *rng.pick(&[1u32, 2, 7, 64, 4096, 8191, 8192, 8193, 65536])).collect();
        Case {
            stream,
            payload,
            mode,
            spec: SourceSpec { trace, fault: None },
            style: STYLES[style].to_string(),
            boundary_fault,
            payload_buf_sizes,
            parts_into_payload: rng.chance(1, 2),
            cross_payload,
            migrate: mode.is_async() && !cross_payload && rng.chance(1, 8),
            quirk,
        }
    }

    fn run(&self, case: &Case, record: bool) -> RunReport {
        let mut rep = RunReport::default();
        let head = case.stream.materialize();
        let (_, _, toks, bd) = refcodec::scan(&head);
        let boundary = head.len();
        if bd != Some(boundary) {
            rep.count("skipped_not_well_formed", 1);
            return rep;
        }
        let mut all = head.clone();
        all.extend_from_slice(&case.payload);
        let (ref_out, ref_payload) = reference(&all);
        let ref_parsed = match &ref_out {
            Outcome::Ok(p) => p.clone(),
            o => {
                // the statement is about well-formed messages; an input the reference rejects is outside it
                rep.count(&format!("skipped_reference_{}", o.class().split('(').next().unwrap_or("x")), 1);
                return rep;
            }
        };
        if ref_payload.as_deref() != Some(&case.payload[..]) {
            rep.violate("reference-payload-differs", format!("unfragmented parse returned {} payload bytes, expected {}", ref_payload.map(|p| p.len()).unwrap_or(0), case.payload.len()));
            return rep;
        }
        let mut spec = case.spec.clone();
        if case.boundary_fault {
            spec.fault = Some(Fault { at: boundary as u64, kind: FaultKind::Err(ErrKind::ConnectionReset), once: false, os: false });
        }
        let core = SimCore::new();
        let data = Arc::new(all);
        let src = SrcHandle::new(&core, data.clone(), spec);
        src.set_record(record);
        src.set_track(true);
        let max_polls = case.spec.trace.len() as u64 * 3 + data.len() as u64 * 2 + 64;
        crate::drive::CROSS_PAYLOAD.with(|c| c.set(case.cross_payload));
        crate::exec::MIGRATE.with(|m| m.set(case.migrate));
        crate::drive::QUIRK.with(|q| q.set(case.quirk));
        let pr = run_parser_opt(&core, &src, case.mode, max_polls, true, &case.payload_buf_sizes, data.len() + 16, case.parts_into_payload);
        crate::drive::QUIRK.with(|q| q.set(0));
        match case.quirk {
            crate::drive::QUIRK_VECTORED => rep.count("payload_read_with_vectored_reads", 1),
            crate::drive::QUIRK_MIXED if case.cross_payload => rep.count("payload_read_through_both_interfaces_in_turn", 1),
            crate::drive::QUIRK_HANDOVER if case.cross_payload => rep.count("payload_reader_handed_to_another_thread", 1),
            _ => {}
        }
        crate::drive::CROSS_PAYLOAD.with(|c| c.set(false));
        crate::exec::MIGRATE.with(|m| m.set(false));
        rep.count("executor_polls_on_a_fresh_thread", pr.exec.migrated_polls);
        if case.cross_payload {
            rep.count("payload_read_through_the_other_interface", 1);
        }
        if case.parts_into_payload && matches!(case.mode, Mode::SyncParts | Mode::AsyncParts) {
            rep.count("parts_rest_read_through_into_payload", 1);
        }

        rep.count(&format!("mode_{}", case.mode.name()), 1);
        rep.count(&format!("style_{}", case.style), 1);
        rep.count(&format!("stream_{}", case.stream.kind()), 1);
        let st = src.stats();
        rep.count("source_calls", st.calls);
        rep.count("chunks_delivered", st.gives);
        rep.count("short_reads", st.short_gives);
        rep.count("eintr_fired", st.eintr);
        rep.count("slow_calls_on_the_clock_seam", st.slow_calls);
        if st.eintr > 1024 {
            rep.count("runs_with_more_than_1024_interrupted_results", 1);
        }
        if st.pend_inline > 1024 {
            rep.count("runs_with_more_than_1024_not_ready_results", 1);
        }
        rep.count("pending_inline_fired", st.pend_inline);
        rep.count("pending_deferred_fired", st.pend_after);
        rep.count("polled_while_blocked", st.blocked_polls);
        rep.count("boundary_error_armed", case.boundary_fault as u64);
        rep.count("boundary_error_hit", st.fault_err_hits);
        rep.count("executor_polls", pr.exec.polls);
        rep.count("executor_spurious_polls", pr.exec.spurious_polls);
        rep.count("executor_ticks", pr.exec.ticks);
        rep.count("payload_bytes", case.payload.len() as u64);
        if case.payload.len() >= 65536 {
            rep.count("payload_ge_64k", 1);
        }
        let (cuts, eintrs, pends) = {
            let g = src.0.lock().unwrap();
            (g.cut_positions.clone(), g.eintr_positions.clone(), g.pend_positions.clone())
        };
        reach_counters(&mut rep, &toks, boundary, &cuts, &eintrs, &pends);
        let inside = cuts.iter().any(|&c| (c as usize) < boundary) || eintrs.iter().any(|&c| (c as usize) < boundary) || pends.iter().any(|&c| (c as usize) < boundary);
        rep.nontrivial = inside && !ref_parsed.groups.iter().all(|g| g.1.is_empty());
        rep.trace_hash = {
            let mut f = crate::rng::Fnv::default();
            f.u64(src.trace_hash());
            f.u64(case.mode as u64);
            f.finish()
        };
        if record {
            rep.log = Some(json!({
                "mode": case.mode.name(),
                "boundary": boundary,
                "total_len": data.len(),
                "outcome": pr.outcome.short(),
                "consumed_at_return": pr.consumed_at_return,
                "payload_read": pr.payload.as_ref().map(|d| json!({"len": d.bytes.len(), "err": d.err.map(|e| format!("{e:?}")), "reads": d.reads})),
                "source_calls": src.log(),
                "exec": pr.exec,
            }));
        }

        if let Some(v) = pr.exec_violation {
            rep.violate(&format!("executor-{}", match v { crate::exec::ExecViolation::LostWake { .. } => "lost-wake", _ => "livelock" }), format!("{v:?}"));
            return rep;
        }
        match &pr.outcome {
            Outcome::Ok(p) => {
                if pr.consumed_at_return != boundary {
                    let class = if pr.consumed_at_return > boundary { "read-ahead-past-end-tag" } else { "returned-before-end-tag" };
                    rep.violate(class, format!("source had handed out {} bytes when {} returned; end-of-attributes tag ends at {}", pr.consumed_at_return, case.mode.name(), boundary));
                    return rep;
                }
                if *p != ref_parsed {
                    rep.violate("result-depends-on-fragmentation", format!("fragmented: {} vs unfragmented: {}", pr.outcome.short(), ref_out.short()));
                    return rep;
                }
                let d = pr.payload.as_ref().expect("payload phase ran");
                if case.boundary_fault {
                    // the armed error is the first thing the payload reader meets
                    if !d.bytes.is_empty() || d.err != Some(ErrKind::ConnectionReset) {
                        rep.violate("payload-reader-misplaced", format!("error armed at the first payload byte, but the payload reader first saw {} bytes, err={:?}", d.bytes.len(), d.err));
                    }
                } else {
                    if d.err.is_some() || d.bytes != case.payload {
                        let first_diff = d.bytes.iter().zip(case.payload.iter()).position(|(a, b)| a != b);
                        rep.violate("payload-differs", format!("payload read after parse: {} bytes err={:?}, expected {} bytes; first difference at {:?}", d.bytes.len(), d.err, case.payload.len(), first_diff));
                        return rep;
                    }
                    if d.eof_violated {
                        rep.violate("payload-eof-not-sticky", "a read after end-of-stream returned data or an error".into());
                    }
                }
            }
            o => {
                rep.violate(
                    if matches!(o, Outcome::Panic(_)) { "panic-on-fragmented-well-formed" } else { "rejects-fragmented-well-formed" },
                    format!("{} under schedule style {}; unfragmented parse is Ok; consumed {} of boundary {}", o.class(), case.style, pr.consumed_at_return, boundary),
                );
            }
        }
        rep
    }

    fn shrink(&self, c: &Case) -> Vec<Case> {
        let mut out = Vec::new();
        for spec in shrink_spec(&c.spec) {
            out.push(Case { spec, ..c.clone() });
        }
        for payload in shrink_payload(&c.payload) {
            out.push(Case { payload, ..c.clone() });
        }
        // position-dependent failures rarely survive a smaller stream under the *same* cut positions: also try every
        // smaller stream under byte-at-a-time delivery
        let ones = crate::props::common::ones_spec(&c.spec);
        if c.spec.trace != ones.trace {
            out.push(Case { spec: ones.clone(), ..c.clone() });
        }
        for stream in shrink_stream(&c.stream) {
            out.push(Case { stream: stream.clone(), ..c.clone() });
            out.push(Case { stream, spec: ones.clone(), ..c.clone() });
        }
        if !c.payload_buf_sizes.is_empty() {
            out.push(Case { payload_buf_sizes: vec![], ..c.clone() });
        }
        if c.boundary_fault {
            out.push(Case { boundary_fault: false, ..c.clone() });
        }
        if c.migrate {
            out.push(Case { migrate: false, ..c.clone() });
        }
        if c.quirk != 0 {
            out.push(Case { quirk: 0, ..c.clone() });
        }
        if c.cross_payload && !c.spec.trace.iter().any(|e| matches!(e, crate::wire::Ev::Pend { .. })) {
            out.push(Case { cross_payload: false, ..c.clone() });
        }
        out
    }

    fn rule(&self) -> String {
        "Each run: a seeded well-formed message (reference-encoded wire tree incl. forms the crate never emits, or a crate-encoded model message under seeded hash keys) + seeded payload, delivered by a scripted source as a seeded composition of the stream into chunks with EINTR (blocking) / Pending with inline or deferred wake and spurious polls (async) at chunk boundaries; one of the four front ends (parse / parse_parts x blocking / async); after parse_parts the rest is read through reader.into_inner() or reader.into_payload(); after parse() the payload is read through the interface of the same kind or, in a third of those runs, through the other one (blocking parse -> AsyncRead via AllowStdIo on the scripted executor, async parse -> blocking Read over the real block_on bridge). In a quarter of the runs the caller reads the payload in an unusual but legal way: vectored reads (short first buffer), the first reads through one interface of the IppPayload and the rest through the other, or - blocking reads of an async-parsed payload - the response is handed to another OS thread after the first reads. Rare schedule events: a burst of 1025-5000 consecutive Interrupted / not-ready results at one point of the stream; one call that takes 260-1500 ms on the clock seam (LD_PRELOAD clock_gettime, nothing really waits). Names, values and payloads include size classes around 4 KiB / 8 KiB / 16 KiB / 64 KiB and the 16-bit limit. Oracle: source byte counter == offset of the end-of-attributes tag at the instant of return; result == unfragmented parse; payload read back through the returned interface == payload (or the armed boundary error is met first). distinct_nontrivial = distinct hashes of the observed (request size, result) call sequence at the source, among runs where at least one chunk boundary / EINTR / Pending fell strictly inside header+attributes of a message with >= 1 attribute."
            .into()
    }
    fn assumptions(&self) -> Vec<String> {
        vec![
            "sampled schedules, not all compositions; coverage is what 'fired' and the reach matrix report".into(),
            "messages whose unfragmented parse is not Ok are outside the statement and skipped (counted as skipped_*)".into(),
            "async sources never return Interrupted (futures' read_exact does not retry it; AsyncRead has no EINTR contract)".into(),
        ]
    }
    fn components(&self) -> Value {
        json!({
            "real": ["ipp::parser::IppParser", "ipp::parser::AsyncIppParser", "ipp::reader::IppReader", "ipp::reader::AsyncIppReader", "ParserState", "IppValue::parse", "ipp::payload::IppPayload", "std::io::Read::read_exact", "futures_util::AsyncReadExt::read_exact"],
            "simulated": ["byte source (SimRead / SimAsyncRead)", "executor and wakers (ScriptedExecutor)", "HashMap hash keys (getrandom shim)"],
            "stubbed": []
        })
    }
    fn extra_coverage(&self, counters: &BTreeMap<String, u64>) -> Value {
        crate::props::common::reach_matrix(counters)
    }
}

#[allow(dead_code)]
fn _unused(_: TokClass, _: &gen::MMsg) {}
