//! C07 — truncated or failing streams are never accepted as complete messages.
//! Fault enumeration per workload: for a seeded well-formed message, a single sticky fault (EOF, or an I/O error
//! kind) is placed at byte offsets before the end-of-attributes tag, each under several seeded fragmentations.

use std::{collections::BTreeMap, sync::Arc};

use serde::{Deserialize, Serialize};
use serde_json::{json, Value};

use crate::{
    drive::{reference, run_parser, Mode},
    framework::{Prop, RunReport, Tier},
    gen::{gen_stream, gen_trace, ShapeCfg, Stream, TraceOpts},
    outcome::Outcome,
    props::common::shrink_stream,
    refcodec::{self, TokClass},
    rng::Rng,
    wire::{ErrKind, Ev, Fault, FaultKind, SimCore, SourceSpec, SrcHandle},
};

#[derive(Clone, Debug, Serialize, Deserialize)]
pub enum Plan {
    /// every listed offset (or all offsets 0..boundary) x every kind x every fragmentation
    Sweep { positions: Option<Vec<u32>> },
    Single {
        at: u32,
        kind: FaultKind,
        frag: usize,
        /// transient fault: exactly one call fails, the stream then carries on
        #[serde(default)]
        once: bool,
        /// the error is a raw OS error (errno) rather than a synthetic io::Error
        #[serde(default)]
        os: bool,
    },
}

#[derive(Clone, Debug, Serialize, Deserialize)]
pub struct Case {
    pub stream: Stream,
    pub mode: Mode,
    pub frags: Vec<Vec<Ev>>,
    pub plan: Plan,
    /// a very large message (tens of thousands of values): only the cut and one error kind, sticky, unfragmented, at a
    /// handful of offsets — each sub-run parses several hundred KiB
    #[serde(default)]
    pub light: bool,
}

#[derive(Clone, Copy)]
pub struct C07;

fn kinds_for(mode: Mode) -> Vec<FaultKind> {
    let mut v = vec![FaultKind::Eof];
    for k in ErrKind::INJECTABLE {
        v.push(FaultKind::Err(k));
    }
    if !mode.is_async() {
        v.push(FaultKind::Err(ErrKind::WouldBlock));
    }
    v
}

fn kind_name(k: FaultKind) -> String {
    match k {
        FaultKind::Eof => "cut_eof".into(),
        FaultKind::Err(e) => format!("error_{e:?}"),
    }
}

impl C07 {
    /// one sub-run; returns (violation class, detail) if the property is broken
    fn sub_run(&self, data: &Arc<Vec<u8>>, mode: Mode, frag: &[Ev], at: u32, kind: FaultKind, once: bool, os: bool, rep: &mut RunReport, record: bool) -> (Option<(String, String)>, u64) {
        let core = SimCore::new();
        let src = SrcHandle::new(&core, data.clone(), SourceSpec { trace: frag.to_vec(), fault: Some(Fault { at: at as u64, kind, once, os }) });
        src.set_record(record);
        let max_polls = frag.len() as u64 * 3 + data.len() as u64 * 2 + 64;
        let pr = run_parser(&core, &src, mode, max_polls, false, &[], 0);
        let st = src.stats();
        rep.count("fault_eof_hit", st.fault_eof_hits.min(1));
        rep.count("fault_error_hit", st.fault_err_hits.min(1));
        rep.count("eintr_fired", st.eintr);
        rep.count("pending_fired", st.pend_inline + st.pend_after);
        rep.count("source_calls", st.calls);
        if st.fault_eof_hits + st.fault_err_hits == 0 {
            rep.count("fault_not_reached", 1);
        }
        let h = {
            let mut f = crate::rng::Fnv::default();
            f.u64(src.trace_hash());
            f.bytes(pr.outcome.class().as_bytes());
            f.finish()
        };
        if record {
            rep.log = Some(json!({"mode": mode.name(), "fault_at": at, "fault": kind_name(kind), "outcome": pr.outcome.short(), "consumed": pr.consumed_at_return, "source_calls_first_48": src.log().into_iter().take(48).collect::<Vec<_>>() }));
        }
        if let Some(v) = pr.exec_violation {
            return (Some((format!("executor-{}", match v { crate::exec::ExecViolation::LostWake { .. } => "lost-wake", _ => "livelock" }), format!("{v:?} with {} at offset {at}", kind_name(kind)))), h);
        }
        let v = match (&pr.outcome, kind) {
            (Outcome::Ok(_), FaultKind::Eof) => Some(("truncated-stream-accepted".to_string(), format!("{} returned {} although the stream ended at offset {at} of {} (before the end-of-attributes tag)", mode.name(), pr.outcome.short(), data.len()))),
            (Outcome::Ok(_), FaultKind::Err(k)) => Some(("failing-stream-accepted".to_string(), format!("{} returned {} although the source failed with {k:?} ({}) at offset {at} of {}", mode.name(), pr.outcome.short(), if once { "one failing call, the stream carried on behind it" } else { "sticky" }, data.len()))),
            (Outcome::Panic(m), _) => Some(("panic-on-faulty-stream".to_string(), format!("{} panicked ({m}) with {} at offset {at}", mode.name(), kind_name(kind)))),
            (Outcome::Io(got), FaultKind::Err(k)) if *got != k => Some(("io-error-kind-rewritten".to_string(), format!("{} reported Io({got:?}) for an injected {k:?} at offset {at}", mode.name()))),
            (Outcome::InvalidTag(_) | Outcome::InvalidCollection, FaultKind::Err(k)) => Some(("io-error-kind-rewritten".to_string(), format!("{} reported {} for an injected {k:?} at offset {at}", mode.name(), pr.outcome.class()))),
            _ => None,
        };
        (v, h)
    }
}

impl Prop for C07 {
    type Case = Case;
    fn id(&self) -> &'static str {
        "C07"
    }
    fn level(&self) -> &'static str {
        "fault_enumeration"
    }
    fn default_runs(&self, tier: Tier) -> u64 {
        match tier {
            Tier::Quick => 4_000,
            Tier::Thorough => 60_000,
        }
    }

    fn gen(&self, rng: &mut Rng, tier: Tier, _run: u64) -> Case {
        let mut shape = if rng.chance(1, 8) { ShapeCfg::tiny() } else { ShapeCfg::swarm(rng) };
        shape.max_str = shape.max_str.min(300); // keep header+attributes around <= 2 KiB so the per-message space is small
        shape.max_attrs = shape.max_attrs.min(8);
        let mut stream = gen_stream(rng, &shape);
        // 1 message in 12 carries one long value (beyond 8 KiB / 16 KiB / at the 16-bit limit): a fault in the middle
        // of a long read_exact, possibly served by several reads
        if rng.chance(1, 12) {
            let n = *rng.pick(&[8193usize, 12_000, 16_385, 40_000, 65_535]);
            let body: Vec<u8> = (0..n).map(|i| b'a' + (i % 23) as u8).collect();
            let attr = crate::refcodec::WAttr { name: b"document-description".to_vec(), values: vec![crate::refcodec::WVal::Scalar { tag: 0x41, body }] };
            match &mut stream {
                Stream::Wire(w) => {
                    if w.groups.is_empty() {
                        w.groups.push(crate::refcodec::WGroup { tag: 0x01, attrs: vec![] });
                    }
                    let gi = rng.usize(0, w.groups.len() - 1);
                    let at = rng.usize(0, w.groups[gi].attrs.len());
                    w.groups[gi].attrs.insert(at, attr);
                }
                Stream::Model(m) => {
                    if let Some(g) = m.groups.first_mut() {
                        g.attrs.push(("document-description".into(), crate::gen::MValue::TextWithoutLanguage("x".repeat(n))));
                    }
                }
                Stream::Raw(_) => {}
            }
        }
        // 1 message in 300: more values than fit a 16-bit counter (limits on counts are a place where "stop reading"
        // can be mistaken for "done")
        let mut light = false;
        if rng.chance(1, 300) {
            let n = *rng.pick(&[65_536usize, 65_537, 66_000, 70_000]);
            let mut values = Vec::with_capacity(n);
            for i in 0..n {
                values.push(crate::refcodec::WVal::Scalar { tag: 0x21, body: (i as u32).to_be_bytes().to_vec() });
            }
            let wide = crate::refcodec::WAttr { name: b"job-ids".to_vec(), values };
            stream = Stream::Wire(crate::refcodec::WMsg {
                version: 0x0200,
                op: 0x0000,
                reqid: 7,
                groups: vec![
                    crate::refcodec::WGroup { tag: 0x01, attrs: vec![crate::printer::text_attr("attributes-charset", 0x47, b"utf-8"), wide] },
                    crate::refcodec::WGroup { tag: 0x04, attrs: vec![crate::printer::int_attr("printer-state", 0x23, 3)] },
                ],
            });
            light = true;
        }
        let mode = *rng.pick(&Mode::ALL);
        let (head_len, toks) = match &stream {
            Stream::Wire(w) => {
                let e = refcodec::encode(w);
                (e.bytes.len(), e.toks)
            }
            other => (other.materialize().len(), Vec::new()),
        };
        let opts = TraceOpts { is_async: mode.is_async(), eintr: true, pend: true, after: true, cross: false, max_events: 4096 };
        // fragmentation 0: whole; 1: one byte at a time (the fault lands inside a partially filled read_exact);
        // 2: seeded
        // (for long messages byte-at-a-time delivery is kept to the first 4096 bytes, then 1460-byte segments)
        let mut ones: Vec<Ev> = (0..head_len.min(4096)).map(|_| Ev::Give(1)).collect();
        if head_len > 4096 {
            ones.extend((0..(head_len - 4096) / 1460 + 1).map(|_| Ev::Give(1460)));
        }
        let (_, seeded) = gen_trace(rng, head_len, head_len, &toks, &opts);
        let frags = vec![vec![], ones, seeded];
        let positions = match tier {
            _ if light => Some(vec![(head_len - 1) as u32, (head_len - 2) as u32, (head_len - 12) as u32, (head_len - 40) as u32, (head_len / 2) as u32, 8]),
            Tier::Thorough if head_len <= 2048 => None,
            _ => {
                // 32 offsets biased to token edges +-1 and the inside of length fields
                let mut p: Vec<u32> = Vec::new();
                let edge: Vec<usize> = toks.iter().flat_map(|t| [t.start.saturating_sub(1), t.start, t.start + 1]).filter(|&o| o < head_len).collect();
                for _ in 0..32 {
                    let o = if !edge.is_empty() && rng.chance(2, 3) { *rng.pick(&edge) } else { rng.usize(0, head_len.max(1) - 1) };
                    p.push(o as u32);
                }
                // inside long tokens: a few offsets past the 8 KiB / 16 KiB marks of the token
                for t in toks.iter().filter(|t| t.end - t.start > 8192) {
                    for d in [1usize, 4096, 8192, 8193, 16384, 16385, 30_000] {
                        if t.start + d < t.end {
                            p.push((t.start + d) as u32);
                        }
                    }
                    p.push((t.end - 1) as u32);
                }
                p.push(0);
                p.push(head_len.saturating_sub(1) as u32);
                p.sort_unstable();
                p.dedup();
                Some(p)
            }
        };
        let frags = if light { vec![vec![]] } else { frags };
        Case { stream, mode, frags, plan: Plan::Sweep { positions }, light }
    }

    fn run(&self, case: &Case, record: bool) -> RunReport {
        let mut rep = RunReport::default();
        let head = case.stream.materialize();
        let (_, _, toks, bd) = refcodec::scan(&head);
        let boundary = head.len();
        if bd != Some(boundary) {
            rep.count("skipped_not_well_formed", 1);
            return rep;
        }
        let (ref_out, _) = reference(&head);
        let n_attrs = match &ref_out {
            Outcome::Ok(p) => p.groups.iter().map(|g| g.1.len()).sum::<usize>(),
            o => {
                rep.count(&format!("skipped_reference_{}", o.class().split('(').next().unwrap_or("x")), 1);
                return rep;
            }
        };
        let data = Arc::new(head);
        rep.count(&format!("mode_{}", case.mode.name()), 1);
        rep.count(&format!("stream_{}", case.stream.kind()), 1);
        let mut agg = crate::rng::Fnv::default();
        let mut subs = 0u64;
        match &case.plan {
            Plan::Single { at, kind, frag, once, os } => {
                if *at as usize >= boundary {
                    // a fault at or beyond the end-of-attributes tag is outside the statement (the shrinker can move the
                    // boundary below the fault offset): nothing to judge
                    rep.count("skipped_fault_not_before_the_end_tag", 1);
                    return rep;
                }
                let f = case.frags.get(*frag).cloned().unwrap_or_default();
                let (v, h) = self.sub_run(&data, case.mode, &f, *at, *kind, *once, *os, &mut rep, record);
                agg.u64(h);
                subs += 1;
                if let Some((c, d)) = v {
                    rep.violate(&c, d);
                }
            }
            Plan::Sweep { positions } => {
                let all: Vec<u32>;
                let pos: &[u32] = match positions {
                    Some(p) => p,
                    None => {
                        all = (0..boundary as u32).collect();
                        &all
                    }
                };
                if positions.is_none() {
                    rep.count("messages_with_every_offset_enumerated", 1);
                }
                'sweep: for &at in pos {
                    if at as usize >= boundary {
                        continue;
                    }
                    let (cl, inside) = refcodec::locate(&toks, at as usize);
                    let kinds: Vec<(FaultKind, bool)> = if case.light {
                        vec![(FaultKind::Eof, false), (FaultKind::Err(ErrKind::ConnectionReset), false)]
                    } else {
                        kinds_for(case.mode).into_iter().flat_map(|k| if matches!(k, FaultKind::Err(_)) { vec![(k, false), (k, true)] } else { vec![(k, false)] }).collect()
                    };
                    if case.light && at == pos[0] {
                        rep.count("very_wide_messages_gt_65535_values", 1);
                    }
                    for (kind, once) in kinds {
                        for (fi, f) in case.frags.iter().enumerate() {
                            // synthetic and raw-OS forms of the error alternate over offsets and fragmentations
                            let os = (at as usize + fi) % 2 == 1;
                            let (v, h) = self.sub_run(&data, case.mode, f, at, kind, once, os, &mut rep, false);
                            if os && matches!(kind, FaultKind::Err(_)) {
                                rep.count("fault_delivered_as_raw_os_error", 1);
                                if matches!(kind, FaultKind::Err(ErrKind::UnexpectedEof | ErrKind::Other | ErrKind::InvalidData)) {
                                    rep.count("fault_delivered_as_wrapped_io_error", 1);
                                }
                            }
                            agg.u64(h);
                            subs += 1;
                            rep.count(&format!("fault_kind.{}{}", kind_name(kind), if once { ".transient" } else { "" }), 1);
                            rep.count(&format!("reach.fault_{}.{}", if inside { "inside" } else { "before" }, cl.name()), 1);
                            if let Some((c, d)) = v {
                                rep.violate(&c, d);
                                let single = Case { plan: Plan::Single { at, kind, frag: fi, once, os }, ..case.clone() };
                                rep.reduced = serde_json::to_value(&single).ok();
                                break 'sweep;
                            }
                        }
                    }
                }
                if record {
                    rep.log = Some(json!({"mode": case.mode.name(), "boundary": boundary, "sub_runs": subs, "positions": pos.len(), "kinds": kinds_for(case.mode).len(), "fragmentations": case.frags.len()}));
                }
            }
        }
        rep.count("sub_runs", subs);
        rep.trace_hash = agg.finish();
        rep.nontrivial = n_attrs >= 1 && subs > 0;
        rep
    }

    fn shrink(&self, c: &Case) -> Vec<Case> {
        let mut out = Vec::new();
        if let Plan::Sweep { positions } = &c.plan {
            // a sweep is replaced by single placements (the failing one is normally named by the run itself; these
            // also give the shrinker-soundness self-check something to descend into)
            let pts: Vec<u32> = match positions {
                Some(p) if !p.is_empty() => vec![p[0], p[p.len() / 2], p[p.len() - 1]],
                _ => vec![0, 8, 9],
            };
            for at in pts {
                out.push(Case { plan: Plan::Single { at, kind: FaultKind::Eof, frag: 0, once: false, os: false }, ..c.clone() });
                out.push(Case { plan: Plan::Single { at, kind: FaultKind::Err(ErrKind::ConnectionReset), frag: 1.min(c.frags.len().saturating_sub(1)), once: true, os: true }, ..c.clone() });
            }
        }
        if let Plan::Single { at, kind, frag, once, os } = &c.plan {
            let once = *once;
            let os = *os;
            if *frag != 0 {
                out.push(Case { plan: Plan::Single { at: *at, kind: *kind, frag: 0, once, os }, ..c.clone() });
            }
            for stream in shrink_stream(&c.stream) {
                // keep the fault at the same offset and also try it at the same distance from the end
                out.push(Case { stream, ..c.clone() });
            }
            if *at > 0 {
                out.push(Case { plan: Plan::Single { at: at / 2, kind: *kind, frag: *frag, once, os }, ..c.clone() });
                out.push(Case { plan: Plan::Single { at: at - 1, kind: *kind, frag: *frag, once, os }, ..c.clone() });
            }
        }
        out
    }

    fn rule(&self) -> String {
        "Each evaluation = one seeded well-formed message (1 in 12 carries one long value of 8193 / 12000 / 16385 / 40000 / 65535 bytes, with fault offsets placed inside it past the 8 KiB and 16 KiB marks) x one parser front end, swept: a single fault (stream cut = sticky EOF; or I/O error kind — once sticky and once transient, i.e. exactly one failing call with the stream carrying on behind it; delivered alternately as a synthetic io::Error and as a raw OS error (errno; kinds without an errno instead as a wrapped error whose payload is an io::Error of another kind) — in {ConnectionReset, ConnectionAborted, TimedOut, BrokenPipe, UnexpectedEof, PermissionDenied, Other} + WouldBlock for blocking) at each chosen byte offset before the end-of-attributes tag (quick: ~34 offsets biased to token edges +-1; thorough: every offset), each under three fragmentations (whole, one byte per read so the fault lands inside a partially filled read_exact, seeded composition with EINTR / Pending). 'sub_runs' counts the individual fault placements. Oracle: result is Err; for an injected error, IoError with exactly the injected kind; never Ok, never a panic; executor invariants. distinct_nontrivial = distinct hashes of the whole sweep (source call sequences + outcome classes) over messages with >= 1 attribute."
            .into()
    }
    fn assumptions(&self) -> Vec<String> {
        vec![
            "messages are sampled; per message the fault space listed in 'rule' is enumerated (completely in the thorough tier for messages <= 2 KiB)".into(),
            "ErrorKind::Interrupted is not injected as a sticky fault: read_exact retries it by contract, so a sticky EINTR is a livelock of the source, not a failing stream".into(),
        ]
    }
    fn components(&self) -> Value {
        json!({
            "real": ["ipp::parser::IppParser", "ipp::parser::AsyncIppParser", "ipp::reader::*", "ParserState", "IppValue::parse", "read_exact (std, futures)"],
            "simulated": ["byte source with data-offset faults", "executor and wakers", "hash keys"],
            "stubbed": []
        })
    }
    fn extra_coverage(&self, counters: &BTreeMap<String, u64>) -> Value {
        crate::props::common::reach_matrix(counters)
    }
}

#[allow(dead_code)]
fn _t(_: TokClass) {}
