//! C08 — a message read as a stream is its header+attributes, then its exact payload, then end-of-stream; through
//! the blocking and the async interface, for every payload source kind, including both sync<->async bridges.

use std::{io::Read, sync::Arc};

use futures_util::io::{AsyncRead, AsyncReadExt};
use ipp::payload::IppPayload;
use serde::{Deserialize, Serialize};
use serde_json::{json, Value};

use crate::{
    exec::run_scripted,
    framework::{Prop, RunReport, Tier},
    gen::{gen_mmsg, gen_payload, gen_trace, MMsg, ShapeCfg, TraceOpts, STYLES},
    outcome::guarded,
    props::common::{shrink_mmsg, shrink_payload, shrink_spec},
    refcodec::hexbytes,
    rng::Rng,
    wire::{ErrKind, SimCore, SourceSpec, SrcHandle},
};

#[derive(Clone, Copy, Debug, PartialEq, Eq, Serialize, Deserialize)]
pub enum Kind {
    Empty,
    Sync,
    Async,
}

#[derive(Clone, Copy, Debug, PartialEq, Eq, Serialize, Deserialize)]
pub enum Consumer {
    Blocking,
    Async,
}

#[derive(Clone, Debug, Serialize, Deserialize)]
pub struct Case {
    pub msg: MMsg,
    #[serde(with = "hexbytes")]
    pub payload: Vec<u8>,
    pub kind: Kind,
    pub consumer: Consumer,
    pub spec: SourceSpec,
    pub style: String,
    /// consumer read-buffer sizes, cycled; 0 is a legal size (must return Ok(0) without meaning end-of-stream)
    pub buf_sizes: Vec<u32>,
    /// async consumer only: every k-th not-ready read is cancelled (future dropped) and re-issued; 0 = never
    #[serde(default)]
    pub cancel_every: u8,
    /// 0 plain reads; 1 every read is a vectored read (short first buffer); 3 blocking consumer: the reader is handed
    /// to another OS thread once the first payload byte has been read
    #[serde(default)]
    pub quirk: u8,
    /// the caller encodes the message once (to_bytes), THEN changes the header through header_mut() to
    /// (version, operation-or-status, request-id), then streams it: the stream must carry the new header
    #[serde(default)]
    pub rehead: Option<(u16, u16, u32)>,
}

#[derive(Clone, Copy)]
pub struct C08;

struct Consumed {
    bytes: Vec<u8>,
    err: Option<ErrKind>,
    reads: u64,
    eintr_seen: u64,
    zero_len_reads: u64,
    zero_len_bad: bool,
    eof_confirmed: u64,
    eof_violated: bool,
    runaway: bool,
    cancelled_reads: u64,
}

fn new_consumed() -> Consumed {
    Consumed { bytes: Vec::new(), err: None, reads: 0, eintr_seen: 0, zero_len_reads: 0, zero_len_bad: false, eof_confirmed: 0, eof_violated: false, runaway: false, cancelled_reads: 0 }
}

fn next_size(sizes: &[u32], i: &mut usize) -> usize {
    // a pattern of only zero-length reads can never make progress: it is not a consumer, treat it as the default
    let s = if sizes.is_empty() || sizes.iter().all(|&x| x == 0) { 8192 } else { sizes[*i % sizes.len()] as usize };
    *i += 1;
    s
}

/// `eintr_budget`: the source can inject at most as many Interrupted results as its trace has events. A stream is
/// judged not to end when it keeps producing: more data than expected, more Interrupted results than the source
/// can have injected, or an unreasonable number of empty answers to non-empty reads. Reads into an empty buffer
/// and Interrupted results are legal "no progress" steps and are not counted against the stream.
fn consume_blocking<R: Read>(r: &mut R, sizes: &[u32], cap: usize, eintr_budget: u64, vectored: bool) -> Consumed {
    let mut c = new_consumed();
    let mut i = 0usize;
    let mut data_reads = 0u64;
    loop {
        if c.bytes.len() > cap || data_reads > cap as u64 + 64 || c.eintr_seen > eintr_budget {
            c.runaway = true;
            return c;
        }
        let sz = next_size(sizes, &mut i);
        let mut buf = vec![0u8; sz];
        c.reads += 1;
        let res = if vectored && sz >= 2 { crate::drive::read_vectored_sync(r, &mut buf, i) } else { r.read(&mut buf) };
        match res {
            Ok(n) if sz == 0 => {
                c.zero_len_reads += 1;
                if n != 0 {
                    c.zero_len_bad = true;
                }
            }
            Ok(0) => break,
            Ok(n) => {
                data_reads += 1;
                c.bytes.extend_from_slice(&buf[..n])
            }
            // a blocking consumer retries Interrupted, as io::copy / read_to_end do
            Err(e) if e.kind() == std::io::ErrorKind::Interrupted => c.eintr_seen += 1,
            Err(e) => {
                c.err = Some(ErrKind::from_io(e.kind()));
                return c;
            }
        }
    }
    let mut tries = 0u64;
    while c.eof_confirmed < 3 && tries < 32 + eintr_budget {
        tries += 1;
        let mut buf = [0u8; 64];
        match r.read(&mut buf) {
            Ok(0) => c.eof_confirmed += 1,
            Err(e) if e.kind() == std::io::ErrorKind::Interrupted => c.eintr_seen += 1,
            _ => {
                c.eof_violated = true;
                break;
            }
        }
    }
    c
}

/// Returns Pending exactly once without waking itself: the wake-up registered by the cancelled read resumes the task.
struct YieldOnce(bool);
impl std::future::Future for YieldOnce {
    type Output = ();
    fn poll(mut self: std::pin::Pin<&mut Self>, _cx: &mut std::task::Context<'_>) -> std::task::Poll<()> {
        if self.0 {
            std::task::Poll::Ready(())
        } else {
            self.0 = true;
            std::task::Poll::Pending
        }
    }
}

/// One read; when `cancel` is set and the read is not ready on its first poll, the read future is DROPPED
/// (cancelled) and None is returned — the caller yields and issues a fresh read. Models select!/timeout users.
async fn read_cancellable<R: AsyncRead + Unpin>(r: &mut R, buf: &mut [u8], cancel: bool) -> Option<std::io::Result<usize>> {
    if !cancel {
        return Some(r.read(buf).await);
    }
    let mut fut = r.read(buf);
    let first = std::future::poll_fn(|cx| std::task::Poll::Ready(std::future::Future::poll(std::pin::Pin::new(&mut fut), cx))).await;
    match first {
        std::task::Poll::Ready(x) => Some(x),
        std::task::Poll::Pending => {
            drop(fut);
            None
        }
    }
}

async fn consume_async<R: AsyncRead + Unpin>(r: &mut R, sizes: &[u32], cap: usize, cancel_every: u8, vectored: bool) -> Consumed {
    let mut c = new_consumed();
    let mut i = 0usize;
    let mut data_reads = 0u64;
    let mut pendings = 0u64;
    loop {
        // (the executor's poll budget bounds everything that makes no progress)
        if c.bytes.len() > cap || data_reads > cap as u64 + 64 {
            c.runaway = true;
            return c;
        }
        let sz = next_size(sizes, &mut i);
        let mut buf = vec![0u8; sz];
        c.reads += 1;
        let cancel = cancel_every > 0 && (pendings + 1) % cancel_every as u64 == 0;
        let attempt = if vectored && sz >= 2 && !cancel { Some(crate::drive::read_vectored_async(r, &mut buf, i).await) } else { read_cancellable(r, &mut buf, cancel).await };
        let res = match attempt {
            Some(x) => x,
            None => {
                // cancelled while not ready: nothing may have been consumed; yield, then retry with the same size
                pendings += 1;
                c.cancelled_reads += 1;
                i -= 1;
                YieldOnce(false).await;
                continue;
            }
        };
        if cancel_every > 0 {
            pendings += 1;
        }
        match res {
            Ok(n) if sz == 0 => {
                c.zero_len_reads += 1;
                if n != 0 {
                    c.zero_len_bad = true;
                }
            }
            Ok(0) => break,
            Ok(n) => {
                data_reads += 1;
                c.bytes.extend_from_slice(&buf[..n])
            }
            Err(e) => {
                c.err = Some(ErrKind::from_io(e.kind()));
                return c;
            }
        }
    }
    for _ in 0..3 {
        let mut buf = [0u8; 64];
        match r.read(&mut buf).await {
            Ok(0) => c.eof_confirmed += 1,
            _ => {
                c.eof_violated = true;
                break;
            }
        }
    }
    c
}

impl Prop for C08 {
    type Case = Case;
    fn id(&self) -> &'static str {
        "C08"
    }
    fn level(&self) -> &'static str {
        "exploration"
    }
    fn default_runs(&self, tier: Tier) -> u64 {
        match tier {
            Tier::Quick => 100_000,
            Tier::Thorough => 3_000_000,
        }
    }

    fn gen(&self, rng: &mut Rng, tier: Tier, _run: u64) -> Case {
        let shape = ShapeCfg::swarm(rng);
        let msg = gen_mmsg(rng, &shape);
        let kind = *rng.pick(&[Kind::Empty, Kind::Sync, Kind::Sync, Kind::Async, Kind::Async]);
        let consumer = *rng.pick(&[Consumer::Blocking, Consumer::Async]);
        let max_payload = match tier {
            Tier::Quick => {
                if rng.chance(1, 300) {
                    1 << 20
                } else {
                    4096
                }
            }
            Tier::Thorough => {
                if rng.chance(1, 1000) {
                    4 << 20
                } else if rng.chance(1, 50) {
                    1 << 16
                } else {
                    4096
                }
            }
        };
        let payload = if kind == Kind::Empty { vec![] } else { gen_payload(rng, max_payload) };
        // the payload source is its own stream: head_len = 0 makes the generator spread cuts over the whole of it
        let src_is_async = kind == Kind::Async;
        let opts = TraceOpts {
            is_async: src_is_async,
            eintr: rng.chance(3, 4),
            pend: rng.chance(4, 5),
            // async payload behind the blocking interface sits under a real block_on: only wakes that do not need the
            // simulator's own thread are legal there
            after: consumer == Consumer::Async,
            cross: consumer == Consumer::Blocking,
            max_events: 4096,
        };
        let n = payload.len();
        let (style, mut trace) = gen_trace(rng, n.min(2048), n, &[], &opts);
        crate::gen::add_rare_events(rng, &mut trace, &opts, true);
        let nb = rng.usize(0, 5);
        let buf_sizes = (0..nb).map(|_| *rng.pick(&[0u32, 1, 1, 2, 7, 64, 4095, 4096, 4097, 8192, 8193, 65536])).collect::<Vec<_>>();
        let buf_sizes = if buf_sizes.iter().all(|&s| s == 0) { vec![] } else { buf_sizes };
        let cancel_every = if consumer == Consumer::Async && rng.chance(1, 3) { rng.range(1, 3) as u8 } else { 0 };
        let quirk = if !rng.chance(1, 4) {
            0
        } else if consumer == Consumer::Blocking && kind == Kind::Async && rng.chance(1, 2) {
            crate::drive::QUIRK_HANDOVER
        } else {
            crate::drive::QUIRK_VECTORED
        };
        let rehead = if rng.chance(1, 6) { Some((*rng.pick(&[0x0100u16, 0x0101, 0x0200, 0x0201, 0x7f7f]), rng.below(0x10000) as u16, rng.next() as u32)) } else { None };
        Case { msg, payload, kind, consumer, spec: SourceSpec { trace, fault: None }, style: STYLES[style].to_string(), buf_sizes, cancel_every, quirk, rehead }
    }

    fn run(&self, case: &Case, record: bool) -> RunReport {
        let mut rep = RunReport::default();
        let core = SimCore::new();
        let data = Arc::new(case.payload.clone());
        let src = SrcHandle::new(&core, data.clone(), case.spec.clone());
        src.set_record(record);
        src.set_track(true);
        let mut msg = case.msg.build();
        match case.kind {
            Kind::Empty => {}
            Kind::Sync => *msg.payload_mut() = IppPayload::new(src.reader()),
            Kind::Async => *msg.payload_mut() = IppPayload::new_async(src.async_reader()),
        }
        // the expected header+attributes come from the very instance that is then consumed (same map order)
        let mut head = msg.to_bytes().to_vec();
        if let Some((v, code, id)) = case.rehead {
            // an already encoded message is changed through header_mut(): only the 8 header octets change
            let h = msg.header_mut();
            h.version = ipp::model::IppVersion(v);
            h.operation_or_status = code;
            h.request_id = id;
            head[0..2].copy_from_slice(&v.to_be_bytes());
            head[2..4].copy_from_slice(&code.to_be_bytes());
            head[4..8].copy_from_slice(&id.to_be_bytes());
            rep.count("header_changed_after_first_encoding", 1);
        }
        let mut expected = head.clone();
        if case.kind != Kind::Empty {
            expected.extend_from_slice(&case.payload);
        }
        let cap = expected.len() + 64;
        let sizes = case.buf_sizes.clone();
        let n_events = case.spec.trace.len() as u64;
        let quirk = case.quirk;
        let head_len = head.len();
        match quirk {
            crate::drive::QUIRK_VECTORED => rep.count("consumer_uses_vectored_reads", 1),
            crate::drive::QUIRK_HANDOVER => rep.count("reader_handed_to_another_thread_mid_stream", 1),
            _ => {}
        }
        let mut exec_stats = crate::exec::ExecStats::default();
        let got: Result<Consumed, (String, String)> = match case.consumer {
            Consumer::Blocking => match guarded(move || {
                let eintr_budget = n_events + 16;
                let mut r = msg.into_read();
                if quirk == crate::drive::QUIRK_HANDOVER {
                    // this thread reads until the first payload byte has arrived, then the reader moves to another thread
                    let mut first = Vec::new();
                    let mut eintr = 0u64;
                    let mut ended = false;
                    while first.len() <= head_len {
                        let mut buf = vec![0u8; 4096];
                        match r.read(&mut buf) {
                            Ok(0) => {
                                ended = true;
                                break;
                            }
                            Ok(n) => first.extend_from_slice(&buf[..n]),
                            Err(e) if e.kind() == std::io::ErrorKind::Interrupted && eintr <= eintr_budget => eintr += 1,
                            Err(e) => {
                                let mut c = new_consumed();
                                c.bytes = first;
                                c.err = Some(ErrKind::from_io(e.kind()));
                                return Ok(c);
                            }
                        }
                    }
                    if ended {
                        // nothing left to hand over: confirm end-of-stream here
                        let mut c = consume_blocking(&mut r, &sizes, cap, eintr_budget, false);
                        first.extend_from_slice(&c.bytes);
                        c.bytes = first;
                        return Ok(c);
                    }
                    let (tx, rx) = std::sync::mpsc::channel();
                    std::thread::spawn(move || {
                        let c = consume_blocking(&mut r, &sizes, cap, eintr_budget, false);
                        let _ = tx.send(c);
                    });
                    return match rx.recv_timeout(std::time::Duration::from_secs(30)) {
                        Ok(mut c) => {
                            first.extend_from_slice(&c.bytes);
                            c.bytes = first;
                            c.eintr_seen += eintr;
                            Ok(c)
                        }
                        Err(_) => Err("a blocking read did not return within 30 s after the reader moved to another thread (every not-ready result of the payload source was followed by its wake-up)".to_string()),
                    };
                }
                Ok(consume_blocking(&mut r, &sizes, cap, eintr_budget, quirk == crate::drive::QUIRK_VECTORED))
            }) {
                Ok(Ok(c)) => Ok(c),
                Ok(Err(m)) => Err(("stream-stalls-after-thread-handover".into(), m)),
                Err(p) => Err(("panic-reading-stream".into(), p)),
            },
            Consumer::Async => {
                let core2 = core.clone();
                let cancel_every = case.cancel_every;
                let max_polls = case.spec.trace.len() as u64 * 3 + expected.len() as u64 * 2 + 256;
                match guarded(move || {
                    let fut = async move {
                        let mut r = Box::pin(msg.into_async_read());
                        consume_async(&mut r, &sizes, cap, cancel_every, quirk == crate::drive::QUIRK_VECTORED).await
                    };
                    run_scripted(&core2, fut, max_polls)
                }) {
                    Err(p) => Err(("panic-reading-stream".into(), p)),
                    Ok((Err(v), st)) => {
                        exec_stats = st;
                        Err((format!("executor-{}", match v { crate::exec::ExecViolation::LostWake { .. } => "lost-wake", _ => "livelock" }), format!("{v:?}")))
                    }
                    Ok((Ok(c), st)) => {
                        exec_stats = st;
                        Ok(c)
                    }
                }
            }
        };
        let st = src.stats();
        rep.count(&format!("cell.{:?}_payload.{:?}_consumer", case.kind, case.consumer).to_lowercase(), 1);
        rep.count(&format!("style_{}", case.style), 1);
        rep.count("payload_bytes", case.payload.len() as u64);
        if case.payload.len() >= 65536 {
            rep.count("payload_ge_64k", 1);
        }
        rep.count("source_calls", st.calls);
        rep.count("chunks_delivered", st.gives);
        rep.count("short_reads", st.short_gives);
        rep.count("eintr_fired", st.eintr);
        rep.count("slow_calls_on_the_clock_seam", st.slow_calls);
        if st.eintr > 1024 {
            rep.count("runs_with_more_than_1024_interrupted_results", 1);
        }
        if st.pend_inline > 1024 {
            rep.count("runs_with_more_than_1024_not_ready_results", 1);
        }
        rep.count("pending_inline_fired", st.pend_inline);
        rep.count("pending_deferred_fired", st.pend_after);
        rep.count("pending_cross_thread_fired", st.pend_cross);
        rep.count("polled_while_blocked", st.blocked_polls);
        rep.count("executor_polls", exec_stats.polls);
        rep.count("executor_spurious_polls", exec_stats.spurious_polls);
        rep.count("executor_ticks", exec_stats.ticks);
        rep.trace_hash = {
            let mut f = crate::rng::Fnv::default();
            f.u64(src.trace_hash());
            f.u64(case.kind as u64);
            f.u64(case.consumer as u64);
            for s in &case.buf_sizes {
                f.u64(*s as u64);
            }
            f.u64(head.len() as u64);
            f.finish()
        };
        rep.nontrivial = case.kind != Kind::Empty && !case.payload.is_empty() && (st.short_gives > 0 || st.eintr > 0 || st.pend_inline + st.pend_after + st.pend_cross > 0 || !case.buf_sizes.is_empty());
        let c = match got {
            Err((class, detail)) => {
                if record {
                    rep.log = Some(json!({"error": detail, "source_calls_first_48": src.log().into_iter().take(48).collect::<Vec<_>>() }));
                }
                rep.violate(&class, detail);
                return rep;
            }
            Ok(c) => c,
        };
        rep.count("consumer_reads", c.reads);
        rep.count("consumer_zero_length_reads", c.zero_len_reads);
        rep.count("consumer_eintr_seen", c.eintr_seen);
        rep.count("consumer_reads_cancelled_while_pending", c.cancelled_reads);
        if record {
            rep.log = Some(json!({
                "header_attr_len": head.len(), "payload_len": case.payload.len(), "expected_len": expected.len(),
                "got_len": c.bytes.len(), "err": c.err.map(|e| format!("{e:?}")), "consumer_reads": c.reads,
                "eof_confirmed": c.eof_confirmed, "payload_source_handed_out": src.handed_out(),
                "source_calls_first_48": src.log().into_iter().take(48).collect::<Vec<_>>(), "exec": exec_stats,
            }));
        }
        if c.runaway {
            rep.violate("stream-does-not-end", format!("consumer read {} bytes in {} reads without reaching end-of-stream; expected {} bytes", c.bytes.len(), c.reads, expected.len()));
            return rep;
        }
        if let Some(e) = c.err {
            rep.violate("stream-read-error", format!("read returned {e:?} after {} bytes although the payload source injected no error", c.bytes.len()));
            return rep;
        }
        if case.consumer == Consumer::Async && case.kind == Kind::Sync && c.eintr_seen > 0 {
            rep.violate("stream-read-error", "Interrupted surfaced through the async interface".into());
            return rep;
        }
        if c.bytes != expected {
            let first = c.bytes.iter().zip(expected.iter()).position(|(a, b)| a != b).unwrap_or(c.bytes.len().min(expected.len()));
            let region = if first < head.len() { "header+attributes" } else if first == head.len() { "the header/payload seam" } else { "payload" };
            rep.violate("stream-bytes-differ", format!("got {} bytes, expected {} (header+attributes {} + payload {}); first difference at offset {first} in {region}", c.bytes.len(), expected.len(), head.len(), expected.len() - head.len()));
            return rep;
        }
        if c.zero_len_bad {
            rep.violate("stream-bytes-differ", "a read into an empty buffer returned a non-zero count".into());
            return rep;
        }
        if c.eof_violated || c.eof_confirmed < 3 {
            rep.violate("eof-not-sticky", format!("after the first end-of-stream only {} of 3 further reads reported end-of-stream", c.eof_confirmed));
            return rep;
        }
        if case.kind != Kind::Empty && src.handed_out() != case.payload.len() {
            rep.violate("payload-source-not-drained", format!("payload source handed out {} of {} bytes", src.handed_out(), case.payload.len()));
        }
        rep
    }

    fn shrink(&self, c: &Case) -> Vec<Case> {
        let mut out = Vec::new();
        for spec in shrink_spec(&c.spec) {
            out.push(Case { spec, ..c.clone() });
        }
        for payload in shrink_payload(&c.payload) {
            out.push(Case { payload, ..c.clone() });
        }
        if c.cancel_every != 0 {
            out.push(Case { cancel_every: 0, ..c.clone() });
        }
        if c.quirk != 0 {
            out.push(Case { quirk: 0, ..c.clone() });
        }
        if c.rehead.is_some() {
            out.push(Case { rehead: None, ..c.clone() });
        }
        if !c.buf_sizes.is_empty() {
            out.push(Case { buf_sizes: vec![], ..c.clone() });
            for i in 0..c.buf_sizes.len() {
                let mut b = c.buf_sizes.clone();
                b.remove(i);
                if b.iter().any(|&x| x != 0) {
                    out.push(Case { buf_sizes: b, ..c.clone() });
                }
            }
        }
        for msg in shrink_mmsg(&c.msg) {
            out.push(Case { msg, ..c.clone() });
        }
        out
    }

    fn rule(&self) -> String {
        "Each run: a seeded model message (crate-built, hash keys seeded) with payload kind in {empty, blocking source, async source} x consumer in {into_read via blocking Read, into_async_read via AsyncRead on the scripted executor}; the payload source is scripted (composition into chunks; EINTR for blocking sources; Pending with inline / deferred / cross-thread wake and spurious polls for async sources — cross-thread and inline only under the real block_on bridge); the consumer's buffer size varies per call (0, 1, 2, 7, 64, 8 KiB, 64 KiB); in a third of the async-consumer runs every k-th not-ready read is cancelled (its future dropped) and re-issued; in a quarter of the runs the consumer uses vectored reads (short first buffer) or - blocking consumer of an async payload - hands the reader to another OS thread once the first payload byte has arrived; in a sixth of the runs the message is encoded once, then its header is changed through header_mut() before it is streamed (the stream must carry the new header octets). Rare schedule events: a burst of 1025-5000 consecutive Interrupted / not-ready results; one source call that takes 260-1500 ms on the clock seam (LD_PRELOAD clock_gettime; nothing really waits). Oracle: concatenation of everything returned == to_bytes() of the same instance ++ payload; first end-of-stream exactly there and sticky for 3 more reads; payload source handed out exactly its length; no error, no panic; executor invariants. distinct_nontrivial = distinct hashes of (payload-source call sequence, cell of the matrix, buffer-size pattern, header length) among runs with a non-empty payload and at least one short read / EINTR / Pending / non-default buffer pattern."
            .into()
    }
    fn assumptions(&self) -> Vec<String> {
        vec![
            "payload-source errors are not injected: the statement speaks of fragmented and not-ready sources only".into(),
            "async payload behind the blocking interface runs under the real futures_executor::block_on with a real helper thread delivering the wake; the outcome is token-based (park/unpark), the timing of the helper is not simulated".into(),
            "a run that does not return within the 240 s wall-clock watchdog is reported as class 'hang'".into(),
        ]
    }
    fn components(&self) -> Value {
        json!({
            "real": ["IppRequestResponse::into_read", "IppRequestResponse::into_async_read", "IppRequestResponse::to_bytes", "ipp::payload::IppPayload (Empty/Sync/Async; Read and AsyncRead impls)", "std::io::Chain + Cursor", "futures_util::io::Chain + Cursor", "futures_util::io::AllowStdIo", "futures_executor::block_on"],
            "simulated": ["payload byte source", "executor and wakers (async consumer)", "hash keys"],
            "stubbed": []
        })
    }
}
