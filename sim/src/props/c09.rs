//! C09 — mandatory operation attributes come first, in the order RFC 8011 4.1.4-4.1.5 requires, whatever order
//! attributes were added in and however the randomly keyed maps iterate. The simulator owns the hash keys.

use ipp::{operation::IppOperation, prelude::*};
use serde::{Deserialize, Serialize};
use serde_json::{json, Value};

use crate::{
    framework::{Prop, RunReport, Tier},
    gen::{delim_from_u8, gen_ascii, gen_i32, gen_utf8, MValue},
    outcome::guarded,
    refcodec,
    rng::{Fnv, Rng},
};

#[derive(Clone, Debug, Serialize, Deserialize)]
pub enum Entry {
    PrintJob { user: Option<String>, title: Option<String>, attrs: Vec<(String, MValue)> },
    GetPrinterAttributes { attrs: Vec<String> },
    CreateJob { name: Option<String>, attrs: Vec<(String, MValue)> },
    SendDocument { job_id: i32, user: Option<String>, last: Option<bool> },
    PurgeJobs { user: Option<String> },
    CancelJob { job_id: i32, user: Option<String> },
    GetJobAttributes { job_id: i32, user: Option<String> },
    GetJobs { user: Option<String> },
    CupsGetPrinters,
    CupsDeletePrinter,
    NewRequest { version: u16, op: u16, with_uri: bool },
    NewResponse { version: u16, status: u16, id: u32 },
}

#[derive(Clone, Debug, Serialize, Deserialize)]
pub struct Case {
    pub uri: String,
    pub entry: Entry,
    /// further `attributes_mut().add(group, name=value)` calls, in order
    pub adds: Vec<(u8, String, MValue)>,
    /// fresh instances built from the same program (each gets fresh map keys)
    pub instances: u8,
    /// non-operation groups inserted at the FRONT of the in-memory group list through `groups_mut()` after all adds
    #[serde(default)]
    pub front_groups: Vec<(u8, Vec<(String, MValue)>)>,
    /// extra OPERATION groups pushed at the end of the group list through `groups_mut()` after everything else
    #[serde(default)]
    pub tail_op_groups: Vec<Vec<(String, MValue)>>,
    /// call to_bytes() once after the adds and before the group-list surgery, then serialise again (state that
    /// survives between two serialisations)
    #[serde(default)]
    pub serialise_midway: bool,
    /// process environment while the program runs (set before, restored after; one run at a time per process):
    /// the locale variables a library might be tempted to consult. None = variable removed.
    #[serde(default)]
    pub env: Vec<(String, Option<String>)>,
}

struct EnvGuard(Vec<(String, Option<String>)>);

impl EnvGuard {
    fn apply(env: &[(String, Option<String>)]) -> EnvGuard {
        let saved = env.iter().map(|(k, _)| (k.clone(), std::env::var(k).ok())).collect();
        for (k, v) in env {
            match v {
                Some(v) => std::env::set_var(k, v),
                None => std::env::remove_var(k),
            }
        }
        EnvGuard(saved)
    }
}

impl Drop for EnvGuard {
    fn drop(&mut self) {
        for (k, v) in self.0.drain(..) {
            match v {
                Some(v) => std::env::set_var(&k, v),
                None => std::env::remove_var(&k),
            }
        }
    }
}

#[derive(Clone, Copy)]
pub struct C09;

const OPS: [Operation; 8] = [
    Operation::PrintJob,
    Operation::ValidateJob,
    Operation::CancelJob,
    Operation::GetJobAttributes,
    Operation::HoldJob,
    Operation::PausePrinter,
    Operation::CupsGetDefault,
    Operation::CupsMoveJob,
];
const STATUSES: [StatusCode; 4] = [StatusCode::SuccessfulOk, StatusCode::ClientErrorBadRequest, StatusCode::ServerErrorBusy, StatusCode::SuccessfulOkConflictingAttributes];

fn build(case: &Case) -> IppRequestResponse {
    let uri: Uri = case.uri.parse().expect("generated uri parses");
    let empty = || IppPayload::empty();
    let mut req: IppRequestResponse = match &case.entry {
        Entry::PrintJob { user, title, attrs } => {
            let mut b = IppOperationBuilder::print_job(uri, empty());
            if let Some(u) = user {
                b = b.user_name(u);
            }
            if let Some(t) = title {
                b = b.job_title(t);
            }
            for (n, v) in attrs {
                b = b.attribute(IppAttribute::new(n, v.to_ipp()));
            }
            b.build().into_ipp_request()
        }
        Entry::GetPrinterAttributes { attrs } => {
            let mut b = IppOperationBuilder::get_printer_attributes(uri);
            for a in attrs {
                b = b.attribute(a);
            }
            b.build().into_ipp_request()
        }
        Entry::CreateJob { name, attrs } => {
            let mut b = IppOperationBuilder::create_job(uri);
            if let Some(n) = name {
                b = b.job_name(n);
            }
            for (n, v) in attrs {
                b = b.attribute(IppAttribute::new(n, v.to_ipp()));
            }
            b.build().into_ipp_request()
        }
        Entry::SendDocument { job_id, user, last } => {
            let mut b = IppOperationBuilder::send_document(uri, *job_id, empty());
            if let Some(u) = user {
                b = b.user_name(u);
            }
            if let Some(l) = last {
                b = b.last(*l);
            }
            b.build().into_ipp_request()
        }
        Entry::PurgeJobs { user } => {
            let mut b = IppOperationBuilder::purge_jobs(uri);
            if let Some(u) = user {
                b = b.user_name(u);
            }
            b.build().into_ipp_request()
        }
        Entry::CancelJob { job_id, user } => {
            let mut b = IppOperationBuilder::cancel_job(uri, *job_id);
            if let Some(u) = user {
                b = b.user_name(u);
            }
            b.build().into_ipp_request()
        }
        Entry::GetJobAttributes { job_id, user } => {
            let mut b = IppOperationBuilder::get_job_attributes(uri, *job_id);
            if let Some(u) = user {
                b = b.user_name(u);
            }
            b.build().into_ipp_request()
        }
        Entry::GetJobs { user } => {
            let mut b = IppOperationBuilder::get_jobs(uri);
            if let Some(u) = user {
                b = b.user_name(u);
            }
            b.build().into_ipp_request()
        }
        Entry::CupsGetPrinters => IppOperationBuilder::cups().get_printers().into_ipp_request(),
        Entry::CupsDeletePrinter => IppOperationBuilder::cups().delete_printer(uri).into_ipp_request(),
        Entry::NewRequest { version, op, with_uri } => {
            IppRequestResponse::new(IppVersion(*version), OPS[*op as usize % OPS.len()], if *with_uri { Some(uri) } else { None })
        }
        Entry::NewResponse { version, status, id } => IppRequestResponse::new_response(IppVersion(*version), STATUSES[*status as usize % STATUSES.len()], *id),
    };
    for (g, n, v) in &case.adds {
        req.attributes_mut().add(delim_from_u8(*g), IppAttribute::new(n, v.to_ipp()));
    }
    if case.serialise_midway {
        let _ = req.to_bytes();
    }
    for attrs in &case.tail_op_groups {
        let mut grp = IppAttributeGroup::new(DelimiterTag::OperationAttributes);
        for (n, v) in attrs {
            grp.attributes_mut().insert(n.clone(), IppAttribute::new(n, v.to_ipp()));
        }
        req.attributes_mut().groups_mut().push(grp);
    }
    for (tag, attrs) in &case.front_groups {
        let mut grp = IppAttributeGroup::new(delim_from_u8(*tag));
        for (n, v) in attrs {
            grp.attributes_mut().insert(n.clone(), IppAttribute::new(n, v.to_ipp()));
        }
        req.attributes_mut().groups_mut().insert(0, grp);
    }
    req
}

fn entry_name(e: &Entry) -> &'static str {
    match e {
        Entry::PrintJob { .. } => "print_job",
        Entry::GetPrinterAttributes { .. } => "get_printer_attributes",
        Entry::CreateJob { .. } => "create_job",
        Entry::SendDocument { .. } => "send_document",
        Entry::PurgeJobs { .. } => "purge_jobs",
        Entry::CancelJob { .. } => "cancel_job",
        Entry::GetJobAttributes { .. } => "get_job_attributes",
        Entry::GetJobs { .. } => "get_jobs",
        Entry::CupsGetPrinters => "cups_get_printers",
        Entry::CupsDeletePrinter => "cups_delete_printer",
        Entry::NewRequest { .. } => "new_request",
        Entry::NewResponse { .. } => "new_response",
    }
}

fn has_printer_uri(e: &Entry) -> bool {
    !matches!(e, Entry::CupsGetPrinters | Entry::NewResponse { .. } | Entry::NewRequest { with_uri: false, .. })
}

fn opt_s(rng: &mut Rng) -> Option<String> {
    if rng.chance(1, 2) {
        Some(gen_utf8(rng, 20))
    } else {
        None
    }
}

fn simple_value(rng: &mut Rng) -> MValue {
    match rng.below(6) {
        0 => MValue::Integer(gen_i32(rng)),
        1 => MValue::Boolean(rng.chance(1, 2)),
        2 => MValue::Keyword(gen_ascii(rng, 12)),
        3 => MValue::NameWithoutLanguage(gen_utf8(rng, 12)),
        4 => MValue::Array(vec![MValue::Keyword("a".into()), MValue::Keyword(gen_ascii(rng, 6))]),
        _ => MValue::Collection(vec![("m".into(), MValue::Integer(1)), ("n".into(), MValue::Keyword(gen_ascii(rng, 4)))]),
    }
}

impl Prop for C09 {
    type Case = Case;
    fn id(&self) -> &'static str {
        "C09"
    }
    fn level(&self) -> &'static str {
        "exploration"
    }
    fn default_runs(&self, tier: Tier) -> u64 {
        match tier {
            Tier::Quick => 300_000,
            Tier::Thorough => 10_000_000,
        }
    }

    fn gen(&self, rng: &mut Rng, _tier: Tier, _run: u64) -> Case {
        let job_attrs = |rng: &mut Rng| {
            let n = rng.usize(0, 4);
            (0..n).map(|_| (if rng.chance(1, 2) { "copies".to_string() } else { gen_ascii(rng, 10) + "x" }, simple_value(rng))).collect::<Vec<_>>()
        };
        let entry = match rng.below(12) {
            0 => Entry::PrintJob { user: opt_s(rng), title: opt_s(rng), attrs: job_attrs(rng) },
            1 => {
                let n = rng.usize(0, 4);
                Entry::GetPrinterAttributes { attrs: (0..n).map(|_| gen_ascii(rng, 12) + "a").collect() }
            }
            2 => Entry::CreateJob { name: opt_s(rng), attrs: job_attrs(rng) },
            3 => Entry::SendDocument { job_id: gen_i32(rng), user: opt_s(rng), last: if rng.chance(1, 2) { Some(rng.chance(1, 2)) } else { None } },
            4 => Entry::PurgeJobs { user: opt_s(rng) },
            5 => Entry::CancelJob { job_id: gen_i32(rng), user: opt_s(rng) },
            6 => Entry::GetJobAttributes { job_id: gen_i32(rng), user: opt_s(rng) },
            7 => Entry::GetJobs { user: opt_s(rng) },
            8 => Entry::CupsGetPrinters,
            9 => Entry::CupsDeletePrinter,
            10 => Entry::NewRequest { version: *rng.pick(&[0x0101u16, 0x0200, 0x0100]), op: rng.below(8) as u16, with_uri: rng.chance(2, 3) },
            _ => Entry::NewResponse { version: *rng.pick(&[0x0101u16, 0x0200]), status: rng.below(4) as u16, id: rng.next() as u32 },
        };
        let puri = has_printer_uri(&entry);
        // usually a handful of further additions, sometimes enough to push the operation group past 16 / 32 entries
        let n_adds = if rng.chance(1, 12) { rng.usize(13, 40) } else { rng.usize(0, 12) };
        let mut adds = Vec::new();
        for _ in 0..n_adds {
            let group = *rng.pick(&[0x01u8, 0x01, 0x01, 0x02, 0x04, 0x05]);
            let (name, value) = match rng.below(10) {
                // re-adding a reserved name, occasionally with a value at or beyond the 15-bit / 16-bit length marks
                0 => ("attributes-charset".to_string(), MValue::Charset(if rng.chance(1, 12) { "c".repeat(*rng.pick(&[32_767usize, 32_768, 40_000, 65_535])) } else { gen_ascii(rng, 8) })),
                1 => ("attributes-natural-language".to_string(), MValue::NaturalLanguage(if rng.chance(1, 12) { "l".repeat(*rng.pick(&[32_767usize, 32_768, 40_000, 65_535])) } else { gen_ascii(rng, 5) })),
                2 if puri => ("printer-uri".to_string(), MValue::Uri(format!("ipp://{}/q", gen_ascii(rng, 6)))),
                2 | 3 if !puri => ("job-uri".to_string(), MValue::Uri(format!("ipp://h/jobs/{}", rng.below(1000)))),
                3 | 4 => ("job-id".to_string(), MValue::Integer(gen_i32(rng))),
                5 => (rng.pick(&["requesting-user-name", "job-name", "document-format", "last-document", "requested-attributes", "limit", "which-jobs", "my-jobs", "compression", "document-name", "system-uri", "printer-id", "document-uri", "resource-id", "notify-subscription-id", "job-ids", "output-device-uuid", "document-number", "ipp-attribute-fidelity", "job-k-octets"]).to_string(), simple_value(rng)),
                _ => (gen_ascii(rng, 14) + "k", simple_value(rng)),
            };
            // 1 in 6 re-additions of a reserved name carries a value of ANOTHER kind than the constructors use (the
            // position rule is stated by attribute name; a peer or caller may well type job-id as enum or a URI as text)
            let value = if matches!(name.as_str(), "attributes-charset" | "attributes-natural-language" | "printer-uri" | "job-uri" | "job-id") && rng.chance(1, 6) {
                match (name.as_str(), rng.below(3)) {
                    ("job-id", 0) => MValue::Enum(gen_i32(rng)),
                    ("job-id", 1) => MValue::RangeOfInteger { min: 1, max: 2 },
                    ("job-id", _) => MValue::Array(vec![MValue::Integer(gen_i32(rng))]),
                    (_, 0) => MValue::Keyword(gen_ascii(rng, 8)),
                    (_, 1) => MValue::TextWithoutLanguage(gen_ascii(rng, 8)),
                    _ => MValue::NameWithoutLanguage(gen_ascii(rng, 8)),
                }
            } else {
                value
            };
            adds.push((group, name, value));
        }
        let host = *rng.pick(&["localhost", "printer.example.com", "127.0.0.1", "[::1]"]);
        let uri = format!("{}://{}{}/printers/{}", rng.pick(&["ipp", "ipps", "http"]), host, rng.pick(&["", ":631", ":8631"]), gen_ascii(rng, 8));
        let mut front_groups = Vec::new();
        if rng.chance(1, 6) {
            let tag = *rng.pick(&[0x02u8, 0x04, 0x05]);
            let n = rng.usize(0, 2);
            front_groups.push((tag, (0..n).map(|_| (gen_ascii(rng, 8) + "f", simple_value(rng))).collect()));
        }
        let mut tail_op_groups = Vec::new();
        if rng.chance(1, 8) {
            // a second operation group can only come from groups_mut(); whatever the encoder does with it, a target
            // attribute that reaches the wire must still sit in its RFC position
            let mut attrs = vec![(gen_ascii(rng, 6) + "t", simple_value(rng))];
            if rng.chance(2, 3) {
                attrs.push(("job-id".to_string(), MValue::Integer(gen_i32(rng))));
            }
            if !puri && rng.chance(1, 2) {
                attrs.push(("job-uri".to_string(), MValue::Uri("ipp://h/jobs/9".into())));
            }
            tail_op_groups.push(attrs);
        }
        let serialise_midway = rng.chance(1, 6);
        // 1 program in 4 runs under a seeded locale environment
        let mut env = Vec::new();
        if rng.chance(1, 4) {
            for k in ["LANG", "LC_ALL", "LC_MESSAGES", "LANGUAGE"] {
                if rng.chance(1, 2) {
                    let v = *rng.pick(&["C", "POSIX", "C.UTF-8", "en_US.UTF-8", "fr_FR", "de_DE@euro", "pt_BR.ISO-8859-1", "zh_CN.GB18030", "", "tlh", "en_US.UTF-8@x", "sr_RS.UTF-8@latin"]);
                    env.push((k.to_string(), Some(v.to_string())));
                } else if rng.chance(1, 2) {
                    env.push((k.to_string(), None));
                }
            }
        }
        Case { uri, entry, adds, instances: 4, front_groups, tail_op_groups, serialise_midway, env }
    }

    fn run(&self, case: &Case, record: bool) -> RunReport {
        // environment axis: set for the duration of the run, restored when the guard drops (worker processes execute
        // one run at a time)
        let _env = EnvGuard::apply(&case.env);
        let mut rep = RunReport::default();
        rep.count(&format!("entry.{}", entry_name(&case.entry)), 1);
        for (k, v) in &case.env {
            rep.count(&format!("env.{}.{}", k, if v.is_some() { "set" } else { "unset" }), 1);
        }
        rep.count("further_adds", case.adds.len() as u64);
        rep.count(
            "reserved_name_readded_with_another_value_kind",
            case.adds.iter().filter(|(_, n, v)| matches!(n.as_str(), "attributes-charset" | "attributes-natural-language" | "printer-uri" | "job-uri" | "job-id") && !matches!(v, MValue::Charset(_) | MValue::NaturalLanguage(_) | MValue::Uri(_) | MValue::Integer(_))).count() as u64,
        );
        let mut h = Fnv::default();
        h.bytes(serde_json::to_string(&(&case.entry, &case.adds)).unwrap_or_default().as_bytes());
        let mut observed: Vec<Vec<String>> = Vec::new();
        let mut orders_seen = std::collections::BTreeSet::new();
        for inst in 0..case.instances.max(1) {
            let bytes = match guarded(|| build(case).to_bytes().to_vec()) {
                Ok(b) => b,
                Err(p) => {
                    rep.violate("panic-building-message", p);
                    return rep;
                }
            };
            rep.count("instances_built", 1);
            let groups = refcodec::group_names(&bytes);
            let Some((first, names)) = groups.first().cloned() else {
                rep.violate("first-group-not-operation", "no delimiter follows the 8-byte header".into());
                return rep;
            };
            // operation attributes that ended up in a later operation group are still "present" in the message
            let later_op: Vec<&String> = groups.iter().skip(1).filter(|g| g.0 == 0x01).flat_map(|g| g.1.iter()).collect();
            if !later_op.is_empty() {
                rep.count("instances_with_a_second_operation_group", 1);
            }
            for g in &groups {
                h.u8(g.0);
                for n in &g.1 {
                    h.bytes(n.as_bytes());
                    h.u8(0);
                }
            }
            h.u8(0xff);
            orders_seen.insert(names.clone());
            let pos = |n: &str| names.iter().position(|x| x == n);
            let present = |n: &str| names.iter().any(|x| x == n) || later_op.iter().any(|x| x.as_str() == n);
            let mut bad: Option<(&str, String)> = None;
            if first != 0x01 {
                bad = Some(("first-group-not-operation", format!("first delimiter is {first:#04x}; groups: {:?}", groups.iter().map(|g| g.0).collect::<Vec<_>>())));
            } else if names.first().map(|s| s.as_str()) != Some("attributes-charset") {
                bad = Some(("charset-not-first", format!("order: {names:?}")));
            } else if names.get(1).map(|s| s.as_str()) != Some("attributes-natural-language") {
                bad = Some(("language-not-second", format!("order: {names:?}")));
            } else if present("printer-uri") {
                rep.count("has_printer_uri", 1);
                if pos("printer-uri") != Some(2) {
                    bad = Some(("printer-uri-not-third", format!("printer-uri at {:?} (0-based) of the first group; groups: {groups:?}", pos("printer-uri"))));
                } else if present("job-id") {
                    rep.count("has_printer_uri_and_job_id", 1);
                    if pos("job-id") != Some(3) {
                        bad = Some(("job-id-not-fourth", format!("job-id at {:?} (0-based) of the first group in instance {inst}; groups: {groups:?}", pos("job-id"))));
                    }
                }
            } else if present("job-uri") {
                rep.count("has_job_uri_only", 1);
                if pos("job-uri") != Some(2) {
                    bad = Some(("job-uri-not-third", format!("job-uri at {:?} (0-based) of the first group in instance {inst}; groups: {groups:?}", pos("job-uri"))));
                }
            }
            if names.len() >= 5 {
                rep.count("instances_with_ge_5_operation_attributes", 1);
            }
            observed.push(names);
            if let Some((c, d)) = bad {
                rep.violate(c, d);
                break;
            }
        }
        rep.count("distinct_orders_within_run", orders_seen.len() as u64);
        rep.trace_hash = h.finish();
        rep.nontrivial = observed.iter().any(|n| n.len() >= 4);
        if record {
            rep.log = Some(json!({"entry": entry_name(&case.entry), "operation_group_attribute_order_per_instance": observed}));
        }
        rep
    }

    fn shrink(&self, c: &Case) -> Vec<Case> {
        let mut out = Vec::new();
        if !c.front_groups.is_empty() {
            out.push(Case { front_groups: vec![], ..c.clone() });
        }
        if !c.tail_op_groups.is_empty() {
            out.push(Case { tail_op_groups: vec![], ..c.clone() });
        }
        if c.serialise_midway {
            out.push(Case { serialise_midway: false, ..c.clone() });
        }
        if !c.env.is_empty() {
            out.push(Case { env: vec![], ..c.clone() });
            for i in 0..c.env.len() {
                let mut e = c.env.clone();
                e.remove(i);
                out.push(Case { env: e, ..c.clone() });
            }
        }
        for i in 0..c.adds.len() {
            let mut a = c.adds.clone();
            a.remove(i);
            out.push(Case { adds: a, ..c.clone() });
        }
        // simpler entry parameters
        let simpler = match &c.entry {
            Entry::PrintJob { user, title, attrs } if user.is_some() || title.is_some() || !attrs.is_empty() => Some(Entry::PrintJob { user: None, title: None, attrs: vec![] }),
            Entry::SendDocument { job_id, user, last } if user.is_some() || last.is_some() => Some(Entry::SendDocument { job_id: *job_id, user: None, last: None }),
            Entry::CancelJob { job_id, user } if user.is_some() => Some(Entry::CancelJob { job_id: *job_id, user: None }),
            Entry::GetJobAttributes { job_id, user } if user.is_some() => Some(Entry::GetJobAttributes { job_id: *job_id, user: None }),
            Entry::GetPrinterAttributes { attrs } if !attrs.is_empty() => Some(Entry::GetPrinterAttributes { attrs: vec![] }),
            Entry::CreateJob { name, attrs } if name.is_some() || !attrs.is_empty() => Some(Entry::CreateJob { name: None, attrs: vec![] }),
            _ => None,
        };
        if let Some(e) = simpler {
            out.push(Case { entry: e, ..c.clone() });
        }
        out
    }

    fn rule(&self) -> String {
        "Each run executes on a fresh OS thread whose HashMap keys derive from the run seed (getrandom interposed) and, in 1 run of 4, under a seeded locale environment (LANG / LC_ALL / LC_MESSAGES / LANGUAGE set to well-formed and odd values or removed), builds a seeded program — one of 12 entry points (10 operation builders, IppRequestResponse::new with/without URI, new_response) with seeded optional parameters, then 0-12 further attributes_mut().add() calls in seeded order incl. re-adding the reserved names and job-uri when no printer-uri exists (1 such re-addition in 6 with a value of another kind than the constructors use: job-id as enum / range / one-element set, the others as keyword / text / name), (1 program in 12 makes 13-40 of them), in 1 of 6 programs a non-operation group inserted at the front of the group list through groups_mut(), in 1 of 8 a second operation group pushed at the end through groups_mut(), and in 1 of 6 a to_bytes() call between the adds and that surgery — four times (four fresh map key sets), serialises each with to_bytes() and reads the attribute names of every group with the reference tokenizer (a target attribute that ended up in a later operation group still counts as present). Oracle = the statement: first delimiter 0x01; attributes-charset first; attributes-natural-language second; printer-uri third if present, else job-uri third if present; job-id fourth when printer-uri and job-id are both present. distinct_nontrivial = distinct (program, observed order per instance) hashes among runs whose operation group has >= 4 attributes."
            .into()
    }
    fn assumptions(&self) -> Vec<String> {
        vec![
            "std's RandomState takes its per-thread keys from getrandom(2) once per thread; the start-up self-test proves the interposed shim controls them (exit 2 otherwise)".into(),
            "iteration orders are sampled through seeded keys, not enumerated".into(),
        ]
    }
    fn components(&self) -> Value {
        json!({
            "real": ["IppOperationBuilder and all operation structs", "IppRequestResponse::new / new_response", "IppAttributes::add", "IppAttributes::to_bytes", "std::collections::HashMap (real SipHash, seeded keys)"],
            "simulated": ["hash keys: getrandom(2) interposed per thread"],
            "stubbed": []
        })
    }
}
