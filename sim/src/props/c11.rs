//! C11 — the HTTP clients put the exact request on the wire and return the exact response.
//! Tier A: blocking client over the in-memory transport (ipp_verif hook), fully deterministic, incl. concurrent
//! senders under the baton scheduler. Tier B: both clients against the scripted printer over real loopback TCP
//! (outcome-deterministic only), incl. the request-timeout clause.

use std::{
    collections::BTreeMap,
    sync::Arc,
    time::{Duration, Instant},
};

use base64::Engine;
use ipp::prelude::*;
use serde::{Deserialize, Serialize};
use serde_json::{json, Value};

use crate::{
    drive::{drain_sync, reference, Drained},
    framework::{Prop, RunReport, Tier},
    gen::{gen_ascii, gen_mmsg, gen_payload, gen_trace, gen_utf8, gen_wmsg, MMsg, ShapeCfg, TraceOpts},
    net::{dummy_port, Baton, MemNet, SimConnector},
    outcome::{canon, guarded, Outcome, Parsed},
    printer::{gen_framing, gen_segments, ipp_response, FaultAt, Framing, ReqRecord, RespFault, RespFaultKind, Script, ERROR_STATUSES},
    props::common::{shrink_mmsg, shrink_payload, shrink_spec},
    refcodec::{self, hexbytes},
    rng::Rng,
    tcp::{TcpPrinter},
    wire::{ErrKind, SimCore, SourceSpec, SrcHandle},
};

#[derive(Clone, Copy, Debug, PartialEq, Eq, Serialize, Deserialize)]
pub enum Transport {
    Mem,
    Tcp,
}

#[derive(Clone, Copy, Debug, PartialEq, Eq, Serialize, Deserialize)]
pub enum ClientKind {
    Blocking,
    Async,
}

#[derive(Clone, Debug, Serialize, Deserialize)]
pub struct ClientCfg {
    pub scheme: String,
    pub path: String,
    pub query: Option<String>,
    pub headers: Vec<(String, String)>,
    pub auth: Option<(String, String)>,
    pub timeout_ms: Option<u32>,
}

#[derive(Clone, Debug, Serialize, Deserialize)]
pub struct Sender {
    pub msg: MMsg,
    #[serde(with = "hexbytes")]
    pub payload: Vec<u8>,
    pub payload_spec: SourceSpec,
    /// the payload source is an AsyncRead (IppPayload::new_async) instead of a Read (IppPayload::new), whichever
    /// client sends it: both sync<->async bridges of the payload are exercised under both clients
    #[serde(default)]
    pub async_payload: bool,
}

#[derive(Clone, Debug, Serialize, Deserialize)]
pub struct Case {
    pub transport: Transport,
    pub client: ClientKind,
    pub cfg: ClientCfg,
    pub senders: Vec<Sender>,
    /// one script per sender; sender i uses request-id i+1
    pub scripts: Vec<Script>,
    pub write_sched: Vec<u32>,
    pub baton: Vec<u8>,
    /// tier A, single sender: additionally cut the response at EVERY offset before the end of the attributes, under
    /// each of the three framings (fault enumeration); every one of those sends must return Err
    #[serde(default)]
    pub cut_sweep: bool,
    /// tier B, single sender: the printer appends this many pattern octets of trailing data to its complete answer
    /// (tens of MiB; generated at run time so that replay files stay small)
    #[serde(default)]
    pub huge_trailing: u32,
}

#[derive(Clone, Copy)]
pub struct C11;

pub enum SendResult {
    Ok { parsed: Parsed, payload: Drained },
    Err(String),
    Panic(String),
}

impl SendResult {
    fn short(&self) -> String {
        match self {
            SendResult::Ok { parsed, payload } => format!("Ok(status={:#06x} id={} groups={} payload={}B err={:?})", parsed.op, parsed.reqid, parsed.groups.len(), payload.bytes.len(), payload.err),
            SendResult::Err(e) => format!("Err({e})"),
            SendResult::Panic(p) => format!("Panic({p})"),
        }
    }
}

fn gen_path(rng: &mut Rng) -> String {
    let n = rng.usize(0, 3);
    let mut p = String::new();
    for _ in 0..n {
        p.push('/');
        p.push_str(&gen_ascii(rng, 8));
        if rng.chance(1, 6) {
            p.push_str("%20x");
        }
    }
    if p.is_empty() || rng.chance(1, 4) {
        p.push('/');
    }
    p.replace("//", "/a/")
}

pub fn gen_cfg(rng: &mut Rng, transport: Transport) -> ClientCfg {
    let scheme = match transport {
        Transport::Mem => *rng.pick(&["https", "ipps"]),
        Transport::Tcp => *rng.pick(&["http", "ipp"]),
    };
    let nh = rng.usize(0, 4);
    let mut headers = Vec::new();
    for i in 0..nh {
        // mostly private x- headers, sometimes registered request / representation headers that are NOT among the ones
        // the clients set themselves (content-type, content-length, transfer-encoding, host, authorization,
        // user-agent, accept, connection, expect)
        let name = if rng.chance(1, 3) {
            let n = *rng.pick(&["content-language", "content-disposition", "content-md5", "accept-language", "cache-control", "pragma", "cookie", "referer", "from", "x-requested-with", "if-match"]);
            if headers.iter().any(|(k, _): &(String, String)| k == n) {
                format!("x-sim-dup{i}")
            } else {
                n.to_string()
            }
        } else {
            format!("x-sim-{}{}", gen_ascii(rng, 6), i)
        };
        let mut val: String = (0..rng.usize(1, 20)).map(|_| *rng.pick(&['a', 'Z', '0', '9', '-', '_', '.', '=', ';', ' ', '/', '+'])).collect();
        val = val.trim().to_string();
        if val.is_empty() {
            val.push('v');
        }
        headers.push((name, val));
    }
    let auth = if rng.chance(1, 2) { Some((gen_utf8(rng, 12), gen_utf8(rng, 16))) } else { None };
    let query = if rng.chance(1, 3) { Some(format!("{}={}&k={}", gen_ascii(rng, 4) + "q", gen_ascii(rng, 6), rng.below(100))) } else { None };
    ClientCfg { scheme: scheme.to_string(), path: gen_path(rng), query, headers, auth, timeout_ms: None }
}

pub fn gen_script(rng: &mut Rng, reqid: u32, token: &str, allow_faults: bool, transport: Transport) -> Script {
    let ok = rng.chance(3, 4);
    // half of the error answers use one of 18 common codes, half any code in 400..=599
    let status = if ok {
        200
    } else if rng.chance(1, 2) {
        *rng.pick(&ERROR_STATUSES)
    } else {
        rng.range(400, 599) as u16
    };
    // the IPP body: a small attributable response, sometimes followed by extra groups from the wire-tree generator
    let extra = if rng.chance(1, 3) {
        let mut shape = ShapeCfg::swarm(rng);
        shape.max_groups = 2;
        gen_wmsg(rng, &shape).groups.into_iter().filter(|g| g.tag != 0x01).collect()
    } else {
        vec![]
    };
    let ipp_status = if rng.chance(3, 4) { 0x0000 } else { *rng.pick(&[0x0401u16, 0x0503, 0x0001, 0x0507]) };
    let ipp = ipp_response(rng, ipp_status, reqid, token, extra);
    let trailing = if rng.chance(1, 3) { gen_payload(rng, 4096) } else { vec![] };
    let mut s = Script { status, framing: gen_framing(rng), ipp, trailing, segments: gen_segments(rng), fault: None, reset_request_after: None, drip_ms: 0 };
    if allow_faults && rng.chance(1, 3) {
        let r = s.render();
        let body_len = r.body_len as u32;
        let head_len = r.head_len as u32;
        match rng.below(8) {
            0 => s.reset_request_after = Some(rng.below(400) as u32),
            1 | 2 => {
                let at = FaultAt::Head(rng.below(head_len.max(1) as u64) as u32);
                s.fault = Some(RespFault { at, kind: gen_fault_kind(rng, transport) });
            }
            3..=5 => {
                // inside IPP header + attributes
                let at = FaultAt::Body(rng.below(s.ipp.len().max(1) as u64) as u32);
                s.fault = Some(RespFault { at, kind: gen_fault_kind(rng, transport) });
            }
            _ => {
                if body_len as usize > s.ipp.len() {
                    let at = FaultAt::Body(rng.range(s.ipp.len() as u64, body_len as u64 - 1) as u32);
                    // over real TCP a reset may destroy data the client has not read yet, so inside trailing data
                    // only a clean close is scripted there
                    let kind = if transport == Transport::Tcp { RespFaultKind::Cut } else { gen_fault_kind(rng, transport) };
                    s.fault = Some(RespFault { at, kind });
                }
            }
        }
    }
    s
}

fn gen_fault_kind(rng: &mut Rng, transport: Transport) -> RespFaultKind {
    match transport {
        Transport::Mem => match rng.below(4) {
            0 | 1 => RespFaultKind::Cut,
            2 => RespFaultKind::Err(*rng.pick(&[ErrKind::ConnectionReset, ErrKind::ConnectionAborted, ErrKind::BrokenPipe, ErrKind::TimedOut, ErrKind::Other])),
            _ => RespFaultKind::Stall,
        },
        // over real TCP an "error" is a reset; stalls are generated separately together with a client timeout
        Transport::Tcp => {
            if rng.chance(1, 2) {
                RespFaultKind::Cut
            } else {
                RespFaultKind::Err(ErrKind::ConnectionReset)
            }
        }
    }
}

fn build_client_uri(cfg: &ClientCfg, port: u16) -> String {
    format!("{}://127.0.0.1:{}{}{}", cfg.scheme, port, cfg.path, cfg.query.as_ref().map(|q| format!("?{q}")).unwrap_or_default())
}

fn expected_target(cfg: &ClientCfg) -> String {
    format!("{}{}", cfg.path, cfg.query.as_ref().map(|q| format!("?{q}")).unwrap_or_default())
}

/// the request-side oracle (clauses 1-3)
fn check_request(rep: &mut RunReport, who: &str, r: &ReqRecord, cfg: &ClientCfg, port: u16, expected_body: &[u8]) {
    if r.method != "POST" {
        rep.violate("request-not-post", format!("{who}: method {:?}", r.method));
        return;
    }
    if r.target != expected_target(cfg) {
        rep.violate("request-target-differs", format!("{who}: request-target {:?}, expected {:?}", r.target, expected_target(cfg)));
        return;
    }
    let host = r.header("host").unwrap_or("");
    if host != format!("127.0.0.1:{port}") {
        rep.violate("host-header-differs", format!("{who}: Host {host:?}, expected 127.0.0.1:{port}"));
        return;
    }
    let ct = r.headers_named("content-type");
    if ct.len() != 1 || ct[0] != "application/ipp" {
        rep.violate("content-type-missing", format!("{who}: content-type headers {ct:?}"));
        return;
    }
    for (k, v) in &cfg.headers {
        if !r.headers_named(k).iter().any(|x| x == v) {
            rep.violate("custom-header-missing", format!("{who}: configured header {k}: {v:?} not on the wire; got {:?}", r.headers_named(k)));
            return;
        }
    }
    if let Some((u, p)) = &cfg.auth {
        let want = format!("Basic {}", base64::engine::general_purpose::STANDARD.encode(format!("{u}:{p}")));
        if r.header("authorization") != Some(want.as_str()) {
            rep.violate("basic-credentials-missing", format!("{who}: authorization {:?}, expected {want:?}", r.header("authorization")));
            return;
        }
    }
    if r.body != expected_body {
        let first = r.body.iter().zip(expected_body.iter()).position(|(a, b)| a != b).unwrap_or(r.body.len().min(expected_body.len()));
        rep.violate("request-body-differs", format!("{who}: body on the wire has {} bytes, expected {} (request + payload); first difference at {first}", r.body.len(), expected_body.len()));
    }
}

/// the response-side oracle (clauses 4-7)
/// total time the dripping printer sleeps before the end of the attributes has been written (0 if it does not drip)
fn drip_total_ms(s: &Script) -> u64 {
    if s.drip_ms == 0 {
        return 0;
    }
    let r = s.render();
    let upto = r.raw_of_body(s.ipp.len().saturating_sub(1)) + 1;
    let mut server = crate::printer::Server::new(s);
    let (mut sent, mut pieces) = (0usize, 0u64);
    while sent < upto {
        match server.next(usize::MAX) {
            crate::printer::Out::Data(d) => {
                pieces += 1;
                sent += d.len();
            }
            _ => break,
        }
    }
    pieces * s.drip_ms as u64
}

fn check_response(rep: &mut RunReport, who: &str, res: &SendResult, s: &Script, request_complete: bool, stalled_timeout: bool, timeout_ms: Option<u32>) {
    // a dripping printer: the time-out clause applies only when the attributes need well over the time-out to arrive;
    // a drip that costs a small fraction of it changes nothing; anything in between is decided by the real clock and
    // therefore judged by neither clause (only shrink candidates and hand-written replay files can be there)
    let drip = drip_total_ms(s);
    let t = timeout_ms.unwrap_or(u32::MAX) as u64;
    let dripping = drip > 0 && drip >= t.saturating_mul(5) / 2;
    if drip > 0 && !dripping && drip > t / 4 {
        rep.count("skipped_drip_total_near_the_timeout", 1);
        return;
    }
    let stalled_timeout = stalled_timeout || dripping;
    if let SendResult::Panic(p) = res {
        rep.violate("client-panicked", format!("{who}: {p}"));
        return;
    }
    let is_ok = matches!(res, SendResult::Ok { .. });
    let ipp_len = s.ipp.len() as u32;
    // what must be an error
    let must_err: Option<&str> = if s.reset_request_after.is_some() && !request_complete {
        Some("connection reset while the request was being sent")
    } else if s.status >= 400 {
        Some("HTTP error status")
    } else if dripping {
        Some("the response took several times the configured request timeout to arrive")
    } else {
        match s.fault {
            Some(RespFault { at: FaultAt::Head(_), .. }) => Some("connection failed inside the HTTP status line / headers"),
            Some(RespFault { at: FaultAt::Body(k), .. }) if k < ipp_len => Some("connection failed before the end of the attributes"),
            _ => None,
        }
    };
    if let Some(why) = must_err {
        if is_ok {
            let class = if s.status >= 400 {
                "http-error-status-accepted"
            } else if stalled_timeout {
                "timeout-not-honoured"
            } else if s.reset_request_after.is_some() && !request_complete {
                "request-reset-accepted"
            } else {
                "cut-response-accepted"
            };
            rep.violate(class, format!("{who}: {why} (status {}, framing {:?}, fault {:?}), yet send returned {}", s.status, s.framing, s.fault, res.short()));
        }
        return;
    }
    if s.reset_request_after.is_some() {
        // the reset offset lay beyond the whole request: nothing was injected
    }
    // from here on: 2xx and everything through the end of the attributes was delivered
    let (ref_out, _) = reference(&s.ipp);
    let Outcome::Ok(want) = ref_out else {
        rep.count("skipped_reference_rejects_scripted_response", 1);
        return;
    };
    match res {
        SendResult::Ok { parsed, payload } => {
            if *parsed != want {
                rep.violate("response-content-differs", format!("{who}: returned {} but the printer sent {}", res.short(), Outcome::Ok(want).short()));
                return;
            }
            match s.fault {
                None => {
                    if payload.err.is_some() || payload.bytes != s.trailing {
                        rep.violate("response-trailing-data-differs", format!("{who}: trailing data {} bytes err={:?}, printer sent {} bytes (framing {:?})", payload.bytes.len(), payload.err, s.trailing.len(), s.framing));
                    }
                }
                Some(RespFault { at: FaultAt::Body(k), .. }) => {
                    // deliberate, narrow relaxation: un-delivered data may be lost, wrong data may not appear
                    let delivered = (k - ipp_len) as usize;
                    if payload.bytes.len() > delivered || payload.bytes[..] != s.trailing[..payload.bytes.len()] {
                        rep.violate("response-trailing-data-differs", format!("{who}: after a failure at trailing offset {delivered} the client returned {} trailing bytes that are not a prefix of what was sent", payload.bytes.len()));
                    }
                }
                _ => {}
            }
        }
        SendResult::Err(e) => {
            rep.violate("good-response-rejected", format!("{who}: printer answered {} with a complete response (framing {:?}, segments {:?}, fault {:?}) but send returned Err({e})", s.status, s.framing, s.segments, s.fault));
        }
        SendResult::Panic(_) => {}
    }
}

/// rewrite request-id and x-sim-token of a scripted IPP response for a new sender position
fn rekey_script(sc: &mut Script, reqid: u32) -> bool {
    let Ok((mut m, boundary)) = refcodec::decode(&sc.ipp) else { return false };
    if boundary != sc.ipp.len() {
        return false;
    }
    m.reqid = reqid;
    let mut found = false;
    for g in m.groups.iter_mut().filter(|g| g.tag == 0x01) {
        for a in g.attrs.iter_mut().filter(|a| a.name == b"x-sim-token") {
            a.values = vec![refcodec::WVal::Scalar { tag: 0x44, body: format!("tok-{reqid}").into_bytes() }];
            found = true;
        }
    }
    if !found {
        return false;
    }
    sc.ipp = refcodec::encode(&m).bytes;
    // a fault offset that no longer lies inside the attributes is dropped
    if let Some(RespFault { at: FaultAt::Body(k), .. }) = sc.fault {
        if k as usize >= sc.ipp.len() + sc.trailing.len() {
            sc.fault = None;
        }
    }
    true
}

fn token_of(p: &Parsed) -> Option<String> {
    p.groups.iter().find(|g| g.0 == 0x01).and_then(|g| g.1.get("x-sim-token")).and_then(|v| v.as_keyword().cloned())
}

impl C11 {
    fn build_request(s: &Sender, reqid: u32, core: &Arc<SimCore>, _client_is_async: bool) -> (IppRequestResponse, Vec<u8>, SrcHandle) {
        let is_async_payload = s.async_payload;
        let mut req = s.msg.build();
        req.header_mut().request_id = reqid;
        let src = SrcHandle::new(core, Arc::new(s.payload.clone()), s.payload_spec.clone());
        if !s.payload.is_empty() {
            if is_async_payload {
                *req.payload_mut() = IppPayload::new_async(src.async_reader());
            } else {
                *req.payload_mut() = IppPayload::new(src.reader());
            }
        }
        let mut expected = req.to_bytes().to_vec();
        expected.extend_from_slice(&s.payload);
        (req, expected, src)
    }

    fn client_blocking(cfg: &ClientCfg, port: u16) -> IppClient {
        let uri: Uri = build_client_uri(cfg, port).parse().expect("uri");
        let mut b = IppClient::builder(uri);
        for (k, v) in &cfg.headers {
            b = b.http_header(k, v);
        }
        if let Some((u, p)) = &cfg.auth {
            b = b.basic_auth(u, p);
        }
        if let Some(t) = cfg.timeout_ms {
            b = b.request_timeout(Duration::from_millis(t as u64));
        }
        b.build()
    }

    fn client_async(cfg: &ClientCfg, port: u16) -> AsyncIppClient {
        let uri: Uri = build_client_uri(cfg, port).parse().expect("uri");
        let mut b = AsyncIppClient::builder(uri);
        for (k, v) in &cfg.headers {
            b = b.http_header(k, v);
        }
        if let Some((u, p)) = &cfg.auth {
            b = b.basic_auth(u, p);
        }
        if let Some(t) = cfg.timeout_ms {
            b = b.request_timeout(Duration::from_millis(t as u64));
        }
        b.build()
    }

    fn finish_blocking(r: Result<Result<IppRequestResponse, IppError>, String>) -> SendResult {
        match r {
            Err(p) => SendResult::Panic(p),
            Ok(Err(e)) => SendResult::Err(e.to_string()),
            Ok(Ok(mut resp)) => {
                let parsed = canon(resp.header(), resp.attributes());
                match guarded(|| drain_sync(resp.payload_mut(), &[], 1 << 28)) {
                    Ok(payload) => SendResult::Ok { parsed, payload },
                    Err(p) => SendResult::Panic(format!("reading response payload: {p}")),
                }
            }
        }
    }

    /// every cut offset x every framing for the first script (tier A, single sender)
    fn cut_sweep(&self, case: &Case, rep: &mut RunReport) {
        let port = dummy_port();
        let client = Self::client_blocking(&case.cfg, port);
        let base = &case.scripts[0];
        let mut sends = 0u64;
        for framing in [Framing::ContentLength, Framing::Chunked(vec![7]), Framing::Chunked(vec![]), Framing::CloseDelimited] {
            let mut s0 = base.clone();
            s0.status = 200;
            s0.framing = framing.clone();
            s0.reset_request_after = None;
            s0.fault = None;
            let head_len = s0.render().head_len as u32;
            let mut points: Vec<FaultAt> = (0..head_len).map(FaultAt::Head).chain((0..s0.ipp.len() as u32).map(FaultAt::Body)).collect();
            if points.len() > 700 {
                // long responses: every offset of the first 400 bytes, then ~300 evenly spaced ones (keeps a sweep
                // in the millisecond range whatever the size of the scripted response)
                let step = (points.len() - 400) / 300 + 1;
                points = points.iter().enumerate().filter(|(i, _)| *i < 400 || (*i - 400) % step == 0).map(|(_, p)| *p).collect();
            }
            for at in points {
                let mut s = s0.clone();
                s.fault = Some(RespFault { at, kind: RespFaultKind::Cut });
                let mut scripts = BTreeMap::new();
                scripts.insert(1u32, s.clone());
                let net = MemNet::new(scripts, case.write_sched.clone(), false);
                let core = SimCore::new();
                let (req, _exp, _src) = Self::build_request(&case.senders[0], 1, &core, false);
                ipp::verif::set_blocking_connector(Some(Arc::new(SimConnector { net: net.clone(), baton: None })));
                let r = guarded(|| client.send(req));
                ipp::verif::set_blocking_connector(None);
                sends += 1;
                let res = Self::finish_blocking(r);
                if !matches!(res, SendResult::Err(_)) {
                    let class = if matches!(res, SendResult::Panic(_)) { "client-panicked" } else { "cut-response-accepted" };
                    rep.violate(class, format!("cut sweep: response cut at {at:?} under framing {framing:?} (before the end of the attributes), yet send returned {}", res.short()));
                    let mut single = case.clone();
                    single.cut_sweep = false;
                    single.scripts[0] = s;
                    rep.reduced = serde_json::to_value(&single).ok();
                    rep.count("tierA.cut_sweep_sends", sends);
                    return;
                }
            }
        }
        rep.count("tierA.cut_sweeps_completed", 1);
        rep.count("tierA.cut_sweep_sends", sends);
    }

    fn run_mem(&self, case: &Case, record: bool, rep: &mut RunReport) {
        if case.cut_sweep && case.senders.len() == 1 {
            self.cut_sweep(case, rep);
            if rep.violation.is_some() {
                return;
            }
        }
        let port = dummy_port();
        let n = case.senders.len();
        let scripts: BTreeMap<u32, Script> = case.scripts.iter().enumerate().map(|(i, s)| (i as u32 + 1, s.clone())).collect();
        let net = MemNet::new(scripts, case.write_sched.clone(), record);
        let core = SimCore::new();
        let client = Self::client_blocking(&case.cfg, port);
        let mut expected: Vec<Vec<u8>> = Vec::new();
        let mut srcs = Vec::new();
        let mut results: Vec<Option<SendResult>> = (0..n).map(|_| None).collect();
        if n == 1 {
            let (req, exp, src) = Self::build_request(&case.senders[0], 1, &core, false);
            expected.push(exp);
            srcs.push(src);
            ipp::verif::set_blocking_connector(Some(Arc::new(SimConnector { net: net.clone(), baton: None })));
            let r = guarded(|| client.send(req));
            results[0] = Some(Self::finish_blocking(r));
            ipp::verif::set_blocking_connector(None);
        } else {
            let baton = Baton::new(n, case.baton.clone());
            let mut reqs = Vec::new();
            for (i, s) in case.senders.iter().enumerate() {
                let (req, exp, src) = Self::build_request(s, i as u32 + 1, &core, false);
                expected.push(exp);
                srcs.push(src);
                reqs.push(req);
            }
            let client = &client;
            let outs: Vec<SendResult> = std::thread::scope(|sc| {
                let hs: Vec<_> = reqs
                    .into_iter()
                    .enumerate()
                    .map(|(i, req)| {
                        let net = net.clone();
                        let baton = baton.clone();
                        sc.spawn(move || {
                            ipp::verif::set_blocking_connector(Some(Arc::new(SimConnector { net, baton: Some((baton.clone(), i)) })));
                            baton.enter(i);
                            let r = guarded(|| client.send(req));
                            let out = Self::finish_blocking(r);
                            baton.leave(i);
                            out
                        })
                    })
                    .collect();
                hs.into_iter().map(|h| h.join().unwrap_or_else(|_| SendResult::Panic("sender thread".into()))).collect()
            });
            for (i, o) in outs.into_iter().enumerate() {
                results[i] = Some(o);
            }
            let (sw, oh) = baton.stats();
            rep.count("tierA.baton_switches", sw);
            rep.trace_hash ^= oh;
        }
        // gather what the printer saw
        let st = net.0.lock().unwrap();
        rep.count("tierA.dials", st.conns.len() as u64);
        rep.count("tierA.transport_reads", st.conns.iter().map(|c| c.reads).sum());
        rep.count("tierA.transport_writes", st.conns.iter().map(|c| c.writes).sum());
        rep.count("tierA.short_writes_fired", st.conns.iter().map(|c| c.short_writes).sum());
        rep.count("tierA.request_resets_fired", st.conns.iter().filter(|c| c.reset_fired).count() as u64);
        rep.count("tierA.response_faults_fired", st.conns.iter().filter(|c| c.server.as_ref().map(|s| s.fault_hit).unwrap_or(false)).count() as u64);
        for src in &srcs {
            let ss = src.stats();
            rep.count("payload_source.eintr_fired", ss.eintr);
            rep.count("payload_source.short_reads", ss.short_gives);
        }
        rep.trace_hash ^= st.hash.finish();
        if st.conns.len() != n {
            rep.violate("wrong-number-of-connections", format!("{} senders dialled {} connections", n, st.conns.len()));
        }
        for (ci, c) in st.conns.iter().enumerate() {
            if c.read_before_complete {
                rep.violate("client-reads-before-request-complete", format!("connection {ci}: the client read although its request was incomplete ({} request bytes so far): deadlock against a real peer", c.written));
            }
            if let Some(b) = c.conn.bad() {
                rep.violate("malformed-http-request", format!("connection {ci}: {b}"));
            }
        }
        if record {
            rep.log = Some(json!({
                "tier": "A (in-memory transport)",
                "uri": build_client_uri(&case.cfg, port),
                "results": results.iter().map(|r| r.as_ref().map(|x| x.short())).collect::<Vec<_>>(),
                "requests_seen": st.conns.iter().map(|c| json!({"method": c.conn.req.method, "target": c.conn.req.target, "headers": c.conn.req.headers, "body_len": c.conn.req.body.len(), "chunked": c.conn.req.chunked, "complete": c.conn.complete(), "script_key": c.script_key})).collect::<Vec<_>>(),
                "transport_calls_first_200": st.log,
            }));
        }
        for i in 0..n {
            let who = format!("sender {}", i + 1);
            let res = results[i].as_ref().unwrap();
            // find the connection that carried request-id i+1
            let conn = st.conns.iter().find(|c| c.conn.req.body.len() >= 8 && u32::from_be_bytes([c.conn.req.body[4], c.conn.req.body[5], c.conn.req.body[6], c.conn.req.body[7]]) == i as u32 + 1).or(if n == 1 { st.conns.first() } else { None });
            let s = &case.scripts[i];
            let complete = conn.map(|c| c.conn.complete()).unwrap_or(false);
            if let Some(c) = conn {
                if c.conn.complete() {
                    check_request(rep, &who, &c.conn.req, &case.cfg, port, &expected[i]);
                } else if s.reset_request_after.is_none() && !matches!(res, SendResult::Panic(_)) && c.conn.bad().is_none() {
                    rep.violate("request-incomplete", format!("{who}: the printer never received a complete request ({} bytes, head seen: {})", c.written, c.conn.head_seen()));
                }
            } else if s.reset_request_after.is_none() {
                rep.violate("request-missing", format!("{who}: no connection carried request-id {}", i + 1));
            }
            if rep.violation.is_some() {
                return;
            }
            check_response(rep, &who, res, s, complete, false, None);
            if rep.violation.is_some() {
                return;
            }
            // clause 8: own response
            if n > 1 {
                if let SendResult::Ok { parsed, .. } = res {
                    let want = format!("tok-{}", i + 1);
                    if token_of(parsed).as_deref() != Some(want.as_str()) || parsed.reqid != i as u32 + 1 {
                        rep.violate("response-delivered-to-wrong-sender", format!("{who} received token {:?} / request-id {}", token_of(parsed), parsed.reqid));
                        return;
                    }
                }
            }
        }
    }

    /// tier B: a clean close at sampled offsets before the end of the attributes, under three framings, for the client
    /// of this case (the async client has no in-memory transport, so this is its fault-enumeration tier)
    fn tcp_cut_sweep(&self, case: &Case, rep: &mut RunReport) {
        let base = &case.scripts[0];
        let mut sends = 0u64;
        for framing in [Framing::ContentLength, Framing::Chunked(vec![7]), Framing::CloseDelimited] {
            let mut s0 = base.clone();
            s0.status = 200;
            s0.framing = framing.clone();
            s0.reset_request_after = None;
            s0.fault = None;
            s0.drip_ms = 0;
            let head_len = s0.render().head_len as u32;
            let mut points: Vec<FaultAt> = (0..head_len).map(FaultAt::Head).chain((0..s0.ipp.len() as u32).map(FaultAt::Body)).collect();
            if points.len() > 120 {
                let step = (points.len() - 40) / 80 + 1;
                let n = points.len();
                points = points.iter().enumerate().filter(|(i, _)| *i < 20 || *i + 20 >= n || (*i - 20) % step == 0).map(|(_, p)| *p).collect();
            }
            for at in points {
                let mut s = s0.clone();
                s.fault = Some(RespFault { at, kind: RespFaultKind::Cut });
                let mut scripts = BTreeMap::new();
                scripts.insert(1u32, s.clone());
                let Ok(printer) = TcpPrinter::start(scripts, 1) else {
                    rep.count("tierB.harness_bind_failures", 1);
                    return;
                };
                let port = printer.port;
                let core = SimCore::new();
                let (req, _exp, _src) = Self::build_request(&case.senders[0], 1, &core, case.client == ClientKind::Async);
                let res = match case.client {
                    ClientKind::Blocking => {
                        let client = Self::client_blocking(&case.cfg, port);
                        Self::finish_blocking(guarded(|| client.send(req)))
                    }
                    ClientKind::Async => {
                        let client = Self::client_async(&case.cfg, port);
                        let rt = tokio::runtime::Builder::new_current_thread().enable_all().build().expect("tokio runtime");
                        match guarded(|| {
                            rt.block_on(async {
                                match client.send(req).await {
                                    Err(e) => SendResult::Err(e.to_string()),
                                    Ok(mut resp) => {
                                        let parsed = canon(resp.header(), resp.attributes());
                                        let payload = crate::drive::drain_async(resp.payload_mut(), &[], 1 << 28).await;
                                        SendResult::Ok { parsed, payload }
                                    }
                                }
                            })
                        }) {
                            Ok(r) => r,
                            Err(p) => SendResult::Panic(p),
                        }
                    }
                };
                let _ = printer.stop();
                sends += 1;
                if !matches!(res, SendResult::Err(_)) {
                    let class = if matches!(res, SendResult::Panic(_)) { "client-panicked" } else { "cut-response-accepted" };
                    rep.violate(class, format!("cut sweep over TCP ({:?} client): response closed at {at:?} under framing {framing:?} (before the end of the attributes), yet send returned {}", case.client, res.short()));
                    let mut single = case.clone();
                    single.cut_sweep = false;
                    single.scripts[0] = s;
                    rep.reduced = serde_json::to_value(&single).ok();
                    rep.count("tierB.cut_sweep_sends", sends);
                    return;
                }
            }
        }
        rep.count("tierB.cut_sweeps_completed", 1);
        rep.count("tierB.cut_sweep_sends", sends);
    }

    fn run_tcp(&self, case: &Case, record: bool, rep: &mut RunReport) {
        if case.cut_sweep && case.senders.len() == 1 {
            self.tcp_cut_sweep(case, rep);
            if rep.violation.is_some() {
                return;
            }
        }
        let n = case.senders.len();
        let scripts: BTreeMap<u32, Script> = case.scripts.iter().enumerate().map(|(i, s)| (i as u32 + 1, s.clone())).collect();
        if n > 1 {
            // force the n requests to be in flight together, then interleave the response *segments* of the
            // connections in a seeded order (one connection's response pauses in the middle while another's goes on)
            crate::tcp::NEXT_GATE.with(|g| *g.borrow_mut() = Some(crate::tcp::Gate::new(n, case.baton.clone())));
            rep.count("tierB.gated_concurrent_runs", 1);
        }
        let printer = match TcpPrinter::start(scripts, n) {
            Ok(p) => p,
            Err(e) => {
                rep.count("tierB.harness_bind_failures", 1);
                rep.log = Some(json!({"harness": format!("could not start loopback printer: {e}")}));
                return;
            }
        };
        let port = printer.port;
        let core = SimCore::new();
        let mut expected: Vec<Vec<u8>> = Vec::new();
        let mut reqs = Vec::new();
        let is_async = case.client == ClientKind::Async;
        for (i, s) in case.senders.iter().enumerate() {
            let (req, exp, _src) = Self::build_request(s, i as u32 + 1, &core, is_async);
            expected.push(exp);
            reqs.push(req);
        }
        let t0 = Instant::now();
        let results: Vec<SendResult> = match case.client {
            ClientKind::Blocking => {
                let client = Self::client_blocking(&case.cfg, port);
                let client = &client;
                std::thread::scope(|sc| {
                    let hs: Vec<_> = reqs.into_iter().map(|req| sc.spawn(move || Self::finish_blocking(guarded(|| client.send(req))))).collect();
                    hs.into_iter().map(|h| h.join().unwrap_or_else(|_| SendResult::Panic("sender thread".into()))).collect()
                })
            }
            ClientKind::Async => {
                let client = Self::client_async(&case.cfg, port);
                let rt = tokio::runtime::Builder::new_current_thread().enable_all().build().expect("tokio runtime");
                let r = guarded(|| {
                    rt.block_on(async {
                        let futs = reqs.into_iter().map(|req| {
                            let client = &client;
                            async move {
                                match client.send(req).await {
                                    Err(e) => SendResult::Err(e.to_string()),
                                    Ok(mut resp) => {
                                        let parsed = canon(resp.header(), resp.attributes());
                                        let payload = crate::drive::drain_async(resp.payload_mut(), &[], 1 << 28).await;
                                        SendResult::Ok { parsed, payload }
                                    }
                                }
                            }
                        });
                        futures_util::future::join_all(futs).await
                    })
                });
                match r {
                    Ok(v) => v,
                    Err(p) => (0..n).map(|_| SendResult::Panic(p.clone())).collect(),
                }
            }
        };
        let elapsed = t0.elapsed();
        let seen = printer.stop();
        if case.cfg.timeout_ms != Some(0) {
            // (with a zero time-out it is a matter of real timing whether the client gets as far as connecting)
            rep.count("tierB.connections", seen.len() as u64);
        }
        rep.count(if is_async { "tierB.async_client_runs" } else { "tierB.blocking_client_runs" }, 1);
        let stalled = case.scripts.iter().any(|s| matches!(s.fault, Some(RespFault { kind: RespFaultKind::Stall, .. })));
        if stalled {
            rep.count("tierB.stalled_printer_with_client_timeout", 1);
        }
        if case.scripts.iter().any(|s| s.drip_ms > 0) {
            rep.count("tierB.dripping_printer_exceeding_client_timeout", 1);
        }
        rep.trace_hash = {
            let mut f = crate::rng::Fnv::default();
            f.bytes(serde_json::to_string(&(&case.cfg, &case.scripts)).unwrap_or_default().as_bytes());
            for r in &results {
                f.bytes(match r { SendResult::Ok { .. } => b"ok", SendResult::Err(_) => b"err", SendResult::Panic(_) => b"panic" });
            }
            f.finish()
        };
        if record {
            rep.log = Some(json!({
                "tier": "B (loopback TCP; outcome-deterministic only)",
                "client": format!("{:?}", case.client),
                "results": results.iter().map(|r| r.short()).collect::<Vec<_>>(),
                "requests_seen": seen.iter().map(|c| json!({"method": c.req.method, "target": c.req.target, "headers": c.req.headers, "body_len": c.req.body.len(), "complete": c.req.complete})).collect::<Vec<_>>(),
            }));
        }
        if stalled && elapsed > Duration::from_secs(15) {
            rep.violate("timeout-not-honoured", format!("send took {elapsed:?} against a stalled printer with request_timeout {:?} ms", case.cfg.timeout_ms));
            return;
        }
        for i in 0..n {
            let who = format!("sender {} ({:?} client over TCP)", i + 1, case.client);
            let res = &results[i];
            let s = &case.scripts[i];
            if case.cfg.timeout_ms == Some(0) {
                // a zero time-out is already exceeded when the request starts: the statement only says "an error, never
                // a success"; whether the client got as far as connecting or sending is not judged
                rep.count("tierB.zero_timeout_runs", 1);
                match res {
                    SendResult::Ok { .. } => rep.violate("timeout-not-honoured", format!("{who}: request_timeout is zero (exceeded by any answer) yet send returned {}", res.short())),
                    SendResult::Panic(p) => rep.violate("client-panicked", format!("{who}: {p}")),
                    SendResult::Err(_) => {}
                }
                continue;
            }
            let conn = seen.iter().find(|c| c.req.body.len() >= 8 && u32::from_be_bytes([c.req.body[4], c.req.body[5], c.req.body[6], c.req.body[7]]) == i as u32 + 1).or(if n == 1 { seen.first() } else { None });
            let complete = conn.map(|c| c.req.complete).unwrap_or(false);
            if let Some(c) = conn {
                if c.req.complete {
                    check_request(rep, &who, &c.req, &case.cfg, port, &expected[i]);
                } else if s.reset_request_after.is_none() && !matches!(res, SendResult::Panic(_)) {
                    rep.violate("request-incomplete", format!("{who}: the printer never received a complete request"));
                }
            } else if s.reset_request_after.is_none() {
                rep.violate("request-missing", format!("{who}: no connection carried request-id {}", i + 1));
            }
            if rep.violation.is_some() {
                return;
            }
            if n == 1 && seen.len() != 1 && s.reset_request_after.is_none() && s.fault.is_none() && s.status < 400 {
                rep.violate("wrong-number-of-connections", format!("one send produced {} connections", seen.len()));
                return;
            }
            check_response(rep, &who, res, s, complete, stalled, case.cfg.timeout_ms);
            if rep.violation.is_some() {
                return;
            }
            if n > 1 {
                if let SendResult::Ok { parsed, .. } = res {
                    let want = format!("tok-{}", i + 1);
                    if token_of(parsed).as_deref() != Some(want.as_str()) || parsed.reqid != i as u32 + 1 {
                        rep.violate("response-delivered-to-wrong-sender", format!("{who} received token {:?} / request-id {}", token_of(parsed), parsed.reqid));
                        return;
                    }
                }
            }
        }
    }
}

impl Prop for C11 {
    type Case = Case;
    fn id(&self) -> &'static str {
        "C11"
    }
    fn level(&self) -> &'static str {
        "exploration"
    }
    fn default_runs(&self, tier: Tier) -> u64 {
        match tier {
            Tier::Quick => 16_000,
            Tier::Thorough => 400_000,
        }
    }

    fn gen(&self, rng: &mut Rng, tier: Tier, run: u64) -> Case {
        // every 4th run is a tier-B run (real sockets, slower); the rest are tier A
        let transport = if run % 4 == 3 { Transport::Tcp } else { Transport::Mem };
        let client = if transport == Transport::Tcp && rng.chance(1, 2) { ClientKind::Async } else { ClientKind::Blocking };
        let mut cfg = gen_cfg(rng, transport);
        let n = if rng.chance(1, 6) { rng.usize(2, 6) } else { 1 };
        let mut senders = Vec::new();
        let mut scripts = Vec::new();
        let big_den = if tier == Tier::Thorough { 200 } else { 500 };
        for i in 0..n {
            let shape = ShapeCfg::swarm(rng);
            let msg = gen_mmsg(rng, &shape);
            let max_payload = if rng.chance(1, big_den) { 1 << 20 } else { 4096 };
            let payload = if rng.chance(1, 4) { vec![] } else { gen_payload(rng, max_payload) };
            // mostly the natural pairing, sometimes the crossed one
            let is_async_payload = if rng.chance(1, 4) { client != ClientKind::Async } else { client == ClientKind::Async };
            let opts = TraceOpts { is_async: is_async_payload, eintr: rng.chance(1, 2), pend: rng.chance(1, 2), after: false, cross: true, max_events: 2048 };
            let pl = payload.len();
            let (_, trace) = gen_trace(rng, pl.min(1024), pl, &[], &opts);
            senders.push(Sender { msg, payload, payload_spec: SourceSpec { trace, fault: None }, async_payload: is_async_payload });
            scripts.push(gen_script(rng, i as u32 + 1, &format!("tok-{}", i + 1), n == 1 || transport == Transport::Mem, transport));
        }
        if n > 1 {
            for s in scripts.iter_mut() {
                // a reset while the request is written is decided before the request-id is known: single-sender only
                s.reset_request_after = None;
                if transport == Transport::Tcp {
                    // over real sockets concurrent senders all get a complete 200
                    s.status = 200;
                }
            }
            // tier A: some senders of a concurrent run may meet an error status or a failing connection; the others
            // must be unaffected and still get their own response (isolation)
        }
        // tier B only: a stalled printer together with a client timeout (the one clock-dependent clause)
        if transport == Transport::Tcp && n == 1 && rng.chance(1, 36) {
            // (a zero time-out is exceeded before anything can happen: whatever the printer does, send must fail)
            cfg.timeout_ms = Some(if rng.chance(1, 5) { 0 } else { rng.range(150, 400) as u32 });
            let s = &mut scripts[0];
            s.status = 200;
            s.reset_request_after = None;
            let r = s.render();
            let at = match rng.below(3) {
                0 => FaultAt::Head(0),
                1 => FaultAt::Head(rng.below(r.head_len as u64) as u32),
                _ => FaultAt::Body(rng.below(s.ipp.len() as u64) as u32),
            };
            s.fault = Some(RespFault { at, kind: RespFaultKind::Stall });
        } else if transport == Transport::Tcp && n == 1 && rng.chance(1, 35) {
            // a slow, never silent printer: every gap is shorter than the timeout, the whole answer takes ~4x the timeout
            let t = rng.range(200, 300) as u32;
            cfg.timeout_ms = Some(t);
            let s = &mut scripts[0];
            s.status = 200;
            s.reset_request_after = None;
            s.fault = None;
            let r = s.render();
            let upto = r.raw_of_body(s.ipp.len().saturating_sub(1)) + 1;
            s.segments = vec![((upto + 9) / 10).max(1) as u32];
            s.drip_ms = t * 2 / 5;
        } else if rng.chance(1, 4) {
            // a timeout that never fires must not change anything
            cfg.timeout_ms = Some(30_000);
        }
        let nw = rng.usize(0, 4);
        let write_sched = (0..nw).map(|_| *rng.pick(&[1u32, 2, 7, 64, 1000, 100_000])).collect();
        let baton = (0..rng.usize(0, 64)).map(|_| rng.byte()).collect();
        let cut_sweep = n == 1 && if transport == Transport::Mem { rng.chance(1, 100) } else { cfg.timeout_ms.map(|t| t >= 30_000).unwrap_or(true) && rng.chance(1, 60) };
        let mut huge_trailing = 0u32;
        if transport == Transport::Tcp && n == 1 && !cut_sweep && cfg.timeout_ms.map(|t| t >= 30_000).unwrap_or(true) && rng.chance(1, 200) {
            // a very large document behind the attributes (Get-Document style answer): sizes beyond 16 MiB and 64 MiB
            huge_trailing = *rng.pick(&[(16u32 << 20) + 1, (64 << 20) + 12_345, 100 << 20]);
            let s = &mut scripts[0];
            s.status = 200;
            s.fault = None;
            s.reset_request_after = None;
            s.drip_ms = 0;
            s.segments = vec![];
            s.framing = match rng.below(3) {
                0 => Framing::ContentLength,
                1 => Framing::CloseDelimited,
                _ => Framing::Chunked(vec![65_536]),
            };
        }
        Case { transport, client, cfg, senders, scripts, write_sched, baton, cut_sweep, huge_trailing }
    }

    fn run(&self, case: &Case, record: bool) -> RunReport {
        let mut rep = RunReport::default();
        let n = case.senders.len();
        rep.count(if case.transport == Transport::Mem { "tierA.runs" } else { "tierB.runs" }, 1);
        if n > 1 {
            rep.count(if case.transport == Transport::Mem { "tierA.concurrent_sender_runs" } else { "tierB.concurrent_sender_runs" }, 1);
        }
        for s in &case.scripts {
            rep.count(&format!("script.status_{}", if s.status == 200 { "200".to_string() } else { format!("{}xx", s.status / 100) }), 1);
            rep.count(&format!("script.framing_{}", match s.framing { Framing::ContentLength => "content_length", Framing::Chunked(_) => "chunked", Framing::CloseDelimited => "close_delimited" }), 1);
            if let Some(f) = s.fault {
                let region = match f.at {
                    FaultAt::Head(_) => "http_head",
                    FaultAt::Body(k) if k < 8 => "ipp_header",
                    FaultAt::Body(k) if (k as usize) < s.ipp.len() => "ipp_attributes",
                    FaultAt::Body(_) => "trailing_data",
                };
                let kind = match f.kind { RespFaultKind::Cut => "cut", RespFaultKind::Err(_) => "io_error", RespFaultKind::Stall => "stall" };
                rep.count(&format!("script.fault.{kind}.{region}"), 1);
            }
            if s.reset_request_after.is_some() {
                rep.count("script.fault.reset_during_request", 1);
            }
        }
        let expanded;
        let case = if case.huge_trailing > 0 && case.transport == Transport::Tcp && n == 1 {
            let mut c = case.clone();
            let t = &mut c.scripts[0].trailing;
            let base = t.len();
            t.reserve(case.huge_trailing as usize);
            t.extend((0..case.huge_trailing as usize).map(|i| ((base + i).wrapping_mul(31) ^ ((base + i) >> 11)) as u8));
            rep.count("tierB.huge_trailing_data_runs", 1);
            rep.count("tierB.huge_trailing_data_mib", (case.huge_trailing >> 20) as u64);
            expanded = c;
            &expanded
        } else {
            case
        };
        match case.transport {
            Transport::Mem => self.run_mem(case, record, &mut rep),
            Transport::Tcp => self.run_tcp(case, record, &mut rep),
        }
        rep.nontrivial = case.senders.iter().any(|s| !s.payload.is_empty()) || case.scripts.iter().any(|s| s.fault.is_some() || s.status != 200) || n > 1;
        rep
    }

    fn shrink(&self, c: &Case) -> Vec<Case> {
        let mut out = Vec::new();
        if c.senders.len() > 1 {
            for i in 0..c.senders.len() {
                if c.senders.len() > 2 {
                    let mut d = c.clone();
                    d.senders.remove(i);
                    d.scripts.remove(i);
                    // request ids and tokens are positional: re-key the scripted responses of the senders that moved up
                    let mut ok = true;
                    for (j, sc) in d.scripts.iter_mut().enumerate() {
                        ok &= rekey_script(sc, j as u32 + 1);
                    }
                    if ok {
                        out.push(d);
                    }
                }
            }
            if !c.baton.is_empty() {
                out.push(Case { baton: vec![], ..c.clone() });
            }
        }
        if !c.write_sched.is_empty() {
            out.push(Case { write_sched: vec![], ..c.clone() });
        }
        if c.huge_trailing > 0 {
            out.push(Case { huge_trailing: 0, ..c.clone() });
            if c.huge_trailing > 1 << 20 {
                out.push(Case { huge_trailing: c.huge_trailing / 2, ..c.clone() });
            }
        }
        if !c.cfg.headers.is_empty() || c.cfg.auth.is_some() || c.cfg.query.is_some() {
            let mut d = c.clone();
            d.cfg.headers.clear();
            out.push(d);
            let mut d = c.clone();
            d.cfg.auth = None;
            out.push(d);
            let mut d = c.clone();
            d.cfg.query = None;
            out.push(d);
        }
        for i in 0..c.senders.len() {
            for p in shrink_payload(&c.senders[i].payload) {
                let mut d = c.clone();
                d.senders[i].payload = p;
                out.push(d);
            }
            for sp in shrink_spec(&c.senders[i].payload_spec).into_iter().take(8) {
                let mut d = c.clone();
                d.senders[i].payload_spec = sp;
                out.push(d);
            }
            for m in shrink_mmsg(&c.senders[i].msg) {
                let mut d = c.clone();
                d.senders[i].msg = m;
                out.push(d);
            }
            let s = &c.scripts[i];
            if !s.segments.is_empty() && s.drip_ms == 0 {
                let mut d = c.clone();
                d.scripts[i].segments = vec![];
                out.push(d);
            }
            if s.framing != Framing::ContentLength && s.drip_ms == 0 {
                let mut d = c.clone();
                d.scripts[i].framing = Framing::ContentLength;
                out.push(d);
            }
            if !s.trailing.is_empty() && s.fault.is_none() {
                let mut d = c.clone();
                d.scripts[i].trailing = vec![];
                out.push(d);
            }
        }
        out
    }

    fn rule(&self) -> String {
        "Tier A (3 of 4 runs): the real IppClient::send (ureq agent, header loop, streaming chunked body, IppParser on the response reader) over an in-memory transport installed through the cfg(ipp_verif) hook; every transport read/write is scripted: short writes, response segmentation, framing (content-length / chunked with seeded chunk sizes / close-delimited), status (200 or any 4xx/5xx code), one fault (cut, I/O error kind or read time-out at an offset classified as HTTP head / IPP header / attributes / trailing data; or reset while the request is being written); request payload from a fragmented source with EINTR / not-ready results — a blocking Read or an AsyncRead, in a quarter of the runs the kind that does NOT match the client (both payload bridges under both clients); custom headers are private x- names or registered request headers (content-language, content-disposition, accept-language, cookie, ...) other than the ones the clients set themselves; 1 of 100 single-sender runs additionally cuts the response at EVERY offset before the end of the attributes under each framing ('cut_sweep_sends'); 1 of 6 runs has 2-6 concurrent senders through one shared client under the seeded baton scheduler (one thread runs at a time, every transport call is a yield point); in tier A each of them has its own script, so some may meet an error status or a failing connection while the others must still get their own complete response. Tier B (every 4th run): IppClient and AsyncIppClient against the same scripted printer over real loopback TCP (concurrent senders are gated: the printer answers only once all their requests have arrived and then interleaves the response segments of the connections in a seeded order, so requests and responses really overlap), plus, in 1 of 60 single-sender runs, a sweep of clean closes at ~100 sampled offsets before the end of the attributes under three framings ('tierB.cut_sweep_sends'), and the two request_timeout clauses: a stalled printer (time-out 150-400 ms, or zero), and a printer that drips its answer with gaps shorter than the timeout but a total of ~4x the timeout; 1 of 200 single-sender runs has 16 MiB+1 / 64 MiB+12345 / 100 MiB of trailing document data behind the attributes ('tierB.huge_trailing_data_runs'). Oracles: exactly one POST per send to path+query with Host, content-type, every custom header, Basic credentials; de-chunked body == to_bytes() of the sent instance ++ payload; 2xx + complete => Ok equal to the unfragmented parse of the scripted IPP bytes and identical trailing data; 4xx/5xx, failure before the end of the attributes, reset during the request, or stall / slow drip beyond the timeout => Err; failure inside trailing data => attributes equal and trailing data a prefix; each concurrent sender gets the response carrying its own token. distinct_nontrivial = distinct hashes of the transport call sequence (+ baton order) [tier A] or of (configuration, scripts, outcome classes) [tier B] among runs with a payload, a fault, an error status or several senders."
            .into()
    }
    fn assumptions(&self) -> Vec<String> {
        vec![
            "tier A: ureq's real TCP connect to a dummy loopback listener happens before the connector is called; it carries zero bytes".into(),
            "tier A cannot decide the timeout clause (no clock seam in ureq): a stall is modelled as the transport read reporting TimedOut".into(),
            "tier B is outcome-deterministic only: kernel segmentation and OS scheduling are not simulated; its oracles are timing-free except 'send returns within 15 s of a 150-400 ms timeout'".into(),
            "the async client has no transport seam (reqwest's connector is private): it is exercised in tier B only".into(),
            "1xx/3xx and body-less 2xx answers are outside the statement and never scripted".into(),
        ]
    }
    fn components(&self) -> Value {
        json!({
            "real": ["ipp::client::blocking::IppClient::send", "ipp::client::non_blocking::AsyncIppClient::send (tier B)", "IppClientBuilder", "ureq 2.12 agent/request/response/chunked encoder+decoder", "reqwest/hyper/tokio (tier B)", "IppRequestResponse::into_read / into_async_read", "IppParser / AsyncIppParser on the response reader", "kernel loopback TCP (tier B)"],
            "simulated": ["printer (HTTP/1.1 + IPP state machine, scripted)", "transport (tier A: MemTransport)", "thread interleaving of concurrent senders (tier A: baton scheduler)", "request payload source", "hash keys"],
            "stubbed": ["TLS (none: https URL is only the route to ureq's connector seam)", "clock (not simulated)"]
        })
    }
}
