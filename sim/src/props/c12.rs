//! C12 — TLS: servers are authenticated unless the caller explicitly opts out.
//! A finite fault matrix, enumerated completely on every run: client {blocking, async} x ignore flag {unset, false,
//! true} x extra roots {none, correct PEM, correct DER, unrelated PEM, unrelated then correct PEM, correct DER then unrelated} x server identity {valid, wrong host, expired,
//! self-signed, unknown CA} x URI host {localhost, 127.0.0.1}, per TLS backend (one harness build each), against
//! an in-process rustls server on loopback with committed fixture identities.

use std::{
    collections::BTreeMap,
    net::TcpStream,
    path::{Path, PathBuf},
    sync::{
        atomic::{AtomicBool, AtomicUsize, Ordering},
        Arc, Mutex,
    },
    time::{Duration, Instant},
};

use ipp::prelude::*;
use serde::{Deserialize, Serialize};
use serde_json::{json, Value};

use crate::{
    drive::reference,
    framework::{load_findings, verif_root, Tier},
    outcome::{canon, guarded, Outcome},
    printer::{ipp_response, Framing, Script},
    rng::{mix, Rng},
    tcp::{hang_up, serve, SeenConn},
};

/// which system trust store this process sees: "system" or "empty" (bin/check points SSL_CERT_FILE / SSL_CERT_DIR at
/// empty fixtures for the second pass)
pub fn store_label() -> String {
    std::env::var("VERIF_C12_STORE").unwrap_or_else(|_| "system".into())
}

pub const BACKEND: &str = if cfg!(feature = "tlsrustls") { "rustls" } else { "native-tls" };

#[derive(Clone, Copy, Debug, PartialEq, Eq, Serialize, Deserialize, PartialOrd, Ord)]
pub enum Client {
    Blocking,
    Async,
}
#[derive(Clone, Copy, Debug, PartialEq, Eq, Serialize, Deserialize, PartialOrd, Ord)]
pub enum Flag {
    Unset,
    False,
    True,
}
#[derive(Clone, Copy, Debug, PartialEq, Eq, Serialize, Deserialize, PartialOrd, Ord)]
pub enum Roots {
    None,
    CorrectPem,
    CorrectDer,
    UnrelatedPem,
    /// two ca_cert() calls: an unrelated root first, the correct one (PEM) second
    UnrelatedThenCorrectPem,
    /// two ca_cert() calls: the correct root (DER) first, an unrelated one second
    CorrectDerThenUnrelated,
}
#[derive(Clone, Copy, Debug, PartialEq, Eq, Serialize, Deserialize, PartialOrd, Ord)]
pub enum Identity {
    Valid,
    WrongHost,
    Expired,
    SelfSigned,
    UnknownCa,
    /// valid in every respect, but its notAfter lies ~20 seconds in the past: minted with the openssl CLI when the pass
    /// starts (skipped, and counted, when that is not possible); decides "expired" for verifiers with a leeway
    JustExpired,
}
#[derive(Clone, Copy, Debug, PartialEq, Eq, Serialize, Deserialize, PartialOrd, Ord)]
pub enum Host {
    Localhost,
    Ip,
}

#[derive(Clone, Copy, Debug, PartialEq, Eq, Serialize, Deserialize, PartialOrd, Ord)]
pub struct Cell {
    pub client: Client,
    pub flag: Flag,
    pub roots: Roots,
    pub identity: Identity,
    pub host: Host,
}

impl Cell {
    pub fn all() -> Vec<Cell> {
        let mut v = Vec::new();
        for client in [Client::Blocking, Client::Async] {
            for flag in [Flag::Unset, Flag::False, Flag::True] {
                for roots in [Roots::None, Roots::CorrectPem, Roots::CorrectDer, Roots::UnrelatedPem, Roots::UnrelatedThenCorrectPem, Roots::CorrectDerThenUnrelated] {
                    for identity in [Identity::Valid, Identity::WrongHost, Identity::Expired, Identity::SelfSigned, Identity::UnknownCa, Identity::JustExpired] {
                        for host in [Host::Localhost, Host::Ip] {
                            v.push(Cell { client, flag, roots, identity, host });
                        }
                    }
                }
            }
        }
        v
    }
    /// the statement: accept iff the caller opted out, or the certificate is valid for the host and chains to a
    /// root supplied through the builder
    pub fn must_accept(&self) -> bool {
        self.flag == Flag::True || (self.identity == Identity::Valid && matches!(self.roots, Roots::CorrectPem | Roots::CorrectDer | Roots::UnrelatedThenCorrectPem | Roots::CorrectDerThenUnrelated))
    }
    pub fn describe(&self) -> String {
        format!(
            "backend={} store={} client={} flag={} roots={} identity={} host={}",
            BACKEND,
            store_label(),
            match self.client { Client::Blocking => "blocking", Client::Async => "async" },
            match self.flag { Flag::Unset => "unset", Flag::False => "false", Flag::True => "true" },
            match self.roots { Roots::None => "none", Roots::CorrectPem => "pem", Roots::CorrectDer => "der", Roots::UnrelatedPem => "unrelated", Roots::UnrelatedThenCorrectPem => "unrelated+pem", Roots::CorrectDerThenUnrelated => "der+unrelated" },
            match self.identity { Identity::Valid => "valid", Identity::WrongHost => "wronghost", Identity::Expired => "expired", Identity::SelfSigned => "selfsigned", Identity::UnknownCa => "unknownca", Identity::JustExpired => "justexpired" },
            match self.host { Host::Localhost => "localhost", Host::Ip => "ip" },
        )
    }
}

fn fixture(name: &str) -> Vec<u8> {
    let p = verif_root().join("fixtures/tls").join(name);
    std::fs::read(&p).unwrap_or_else(|e| {
        eprintln!("harness error: fixture {}: {e}", p.display());
        std::process::exit(2)
    })
}

fn server_config(id: Identity) -> Arc<rustls::ServerConfig> {
    let base = match id {
        Identity::Valid => "valid",
        Identity::WrongHost => "wronghost",
        Identity::Expired => "expired",
        Identity::SelfSigned => "selfsigned",
        Identity::UnknownCa => "unknownca",
        Identity::JustExpired => "valid", // key of the valid leaf, freshly minted certificate
    };
    let cert_bytes = if id == Identity::JustExpired { JUST_EXPIRED.get().and_then(|c| c.clone()).expect("just-expired certificate minted") } else { fixture(&format!("{base}.cert.der")) };
    let cert = rustls::pki_types::CertificateDer::from(cert_bytes);
    let key = rustls::pki_types::PrivateKeyDer::Pkcs8(rustls::pki_types::PrivatePkcs8KeyDer::from(fixture(&format!("{base}.key.der"))));
    let cfg = rustls::ServerConfig::builder_with_provider(Arc::new(rustls::crypto::ring::default_provider()))
        .with_safe_default_protocol_versions()
        .expect("protocol versions")
        .with_no_client_auth()
        .with_single_cert(vec![cert], key)
        .expect("server cert");
    Arc::new(cfg)
}

/// DER of the just-expired leaf of this pass (None when it could not be minted)
static JUST_EXPIRED: std::sync::OnceLock<Option<Vec<u8>>> = std::sync::OnceLock::new();

fn utc_stamp(secs: u64) -> String {
    // civil-from-days (proleptic Gregorian), no external crates
    let days = (secs / 86_400) as i64;
    let rem = secs % 86_400;
    let z = days + 719_468;
    let era = z.div_euclid(146_097);
    let doe = z.rem_euclid(146_097);
    let yoe = (doe - doe / 1_460 + doe / 36_524 - doe / 146_096) / 365;
    let y = yoe + era * 400;
    let doy = doe - (365 * yoe + yoe / 4 - yoe / 100);
    let mp = (5 * doy + 2) / 153;
    let d = doy - (153 * mp + 2) / 5 + 1;
    let m = if mp < 10 { mp + 3 } else { mp - 9 };
    let y = if m <= 2 { y + 1 } else { y };
    format!("{:04}{:02}{:02}{:02}{:02}{:02}Z", y, m, d, rem / 3600, (rem % 3600) / 60, rem % 60)
}

/// mint a leaf signed by the test CA for the valid leaf's key: notBefore = now - 1 h, notAfter = now - 20 s
fn mint_just_expired() -> Option<Vec<u8>> {
    let fx = verif_root().join("fixtures/tls");
    let work = verif_root().join("work").join(format!("c12-mint-{}", std::process::id()));
    std::fs::create_dir_all(&work).ok()?;
    let now = std::time::SystemTime::now().duration_since(std::time::UNIX_EPOCH).ok()?.as_secs();
    let run = |args: &[&str]| std::process::Command::new("openssl").args(args).stdin(std::process::Stdio::null()).stdout(std::process::Stdio::null()).stderr(std::process::Stdio::null()).status().map(|s| s.success()).unwrap_or(false);
    let csr = work.join("je.csr");
    let pem = work.join("je.pem");
    let der = work.join("je.der");
    // `openssl ca` accepts an end date in the past on OpenSSL 3.0 as well as on later versions
    // (`x509 -req -not_after` needs >= 3.4)
    let cnf = work.join("ca.cnf");
    let w = work.to_str()?;
    std::fs::write(
        &cnf,
        format!(
            "[ ca ]\ndefault_ca = CA_default\n[ CA_default ]\ndir = {w}\ndatabase = {w}/index.txt\nnew_certs_dir = {w}\nserial = {w}/serial\ncertificate = {ca}\nprivate_key = {key}\ndefault_md = sha256\npolicy = pol\nunique_subject = no\ncopy_extensions = none\n[ pol ]\ncommonName = supplied\n[ ext ]\nbasicConstraints = critical,CA:FALSE\nkeyUsage = critical,digitalSignature\nextendedKeyUsage = serverAuth\nsubjectAltName = DNS:localhost,IP:127.0.0.1\n",
            ca = fx.join("testca.cert.pem").to_str()?,
            key = fx.join("testca.key.pem").to_str()?
        ),
    )
    .ok()?;
    std::fs::write(work.join("index.txt"), "").ok()?;
    std::fs::write(work.join("serial"), format!("{:x}\n", now | 1)).ok()?;
    // UTCTime: YYMMDDHHMMSSZ
    let start = utc_stamp(now - 3600);
    let end = utc_stamp(now - 20);
    let ok = run(&["req", "-new", "-key", fx.join("valid.key.pem").to_str()?, "-subj", "/CN=sim printer justexpired", "-out", csr.to_str()?])
        && run(&["ca", "-batch", "-config", cnf.to_str()?, "-in", csr.to_str()?, "-out", pem.to_str()?, "-startdate", &start[2..], "-enddate", &end[2..], "-extensions", "ext", "-notext"])
        && run(&["x509", "-in", pem.to_str()?, "-outform", "DER", "-out", der.to_str()?]);
    let out = if ok { std::fs::read(&der).ok() } else { None };
    let _ = std::fs::remove_dir_all(&work);
    out
}

struct TlsPrinter {
    port: u16,
    stop: Arc<AtomicBool>,
    accept: Option<std::thread::JoinHandle<()>>,
    seen: Arc<Mutex<Vec<SeenConn>>>,
    handlers: Arc<Mutex<Vec<std::thread::JoinHandle<()>>>>,
}

impl TlsPrinter {
    fn start(id: Identity, script: Script) -> std::io::Result<TlsPrinter> {
        let l = crate::tcp::thread_listener()?;
        let port = l.local_addr()?.port();
        let stop = Arc::new(AtomicBool::new(false));
        let seen: Arc<Mutex<Vec<SeenConn>>> = Arc::new(Mutex::new(Vec::new()));
        let handlers: Arc<Mutex<Vec<std::thread::JoinHandle<()>>>> = Arc::new(Mutex::new(Vec::new()));
        let cfg = server_config(id);
        let mut scripts = BTreeMap::new();
        scripts.insert(1u32, script);
        let scripts = Arc::new(scripts);
        let (stop2, seen2, handlers2) = (stop.clone(), seen.clone(), handlers.clone());
        let accept = std::thread::spawn(move || {
            for s in l.incoming() {
                if stop2.load(Ordering::SeqCst) {
                    break;
                }
                let Ok(s) = s else { continue };
                let (cfg, scripts, stop3, seen3) = (cfg.clone(), scripts.clone(), stop2.clone(), seen2.clone());
                let h = std::thread::spawn(move || {
                    let raw = s.try_clone().expect("clone");
                    // dual-protocol, as cupsd is: a connection that does not open with a TLS handshake record is served
                    // as plain HTTP — a client that falls back to cleartext after a failed handshake is seen delivering
                    // its request (application bytes > 0) instead of being met by a TLS-only dead end
                    let _ = raw.set_read_timeout(Some(Duration::from_millis(2000)));
                    let mut first = [0u8; 1];
                    if let Ok(1) = raw.peek(&mut first) {
                        if first[0] != 0x16 {
                            let mut plain = s;
                            let (mut sc, h) = serve(&mut plain, &raw, &scripts, &stop3, false);
                            sc.handshake_error = Some("cleartext connection (no TLS handshake)".into());
                            seen3.lock().unwrap().push(sc);
                            hang_up(&raw, h);
                            return;
                        }
                    }
                    let conn = match rustls::ServerConnection::new(cfg) {
                        Ok(c) => c,
                        Err(_) => return,
                    };
                    let mut tls = rustls::StreamOwned::new(conn, s);
                    let (mut sc, h) = serve(&mut tls, &raw, &scripts, &stop3, false);
                    if tls.conn.is_handshaking() {
                        sc.handshake_error = Some("handshake not completed".into());
                    }
                    tls.conn.send_close_notify();
                    let _ = tls.conn.complete_io(&mut tls.sock);
                    seen3.lock().unwrap().push(sc);
                    hang_up(&raw, h);
                });
                handlers2.lock().unwrap().push(h);
            }
        });
        Ok(TlsPrinter { port, stop, accept: Some(accept), seen, handlers })
    }

    fn stop(mut self) -> Vec<SeenConn> {
        let t0 = Instant::now();
        loop {
            let done = self.handlers.lock().unwrap().iter().all(|h| h.is_finished());
            if done || t0.elapsed() > Duration::from_millis(1500) {
                break;
            }
            std::thread::sleep(Duration::from_micros(300));
        }
        self.stop.store(true, Ordering::SeqCst);
        if let Ok(w) = TcpStream::connect(("127.0.0.1", self.port)) {
            crate::tcp::set_linger_zero(&w); // wake the accept loop; abort instead of close: no TIME_WAIT left behind
        }
        if let Some(a) = self.accept.take() {
            let _ = a.join();
        }
        let hs: Vec<_> = std::mem::take(&mut *self.handlers.lock().unwrap());
        for h in hs {
            let _ = h.join();
        }
        std::mem::take(&mut *self.seen.lock().unwrap())
    }
}

#[derive(Clone, Debug, Serialize)]
pub struct CellResult {
    pub cell: String,
    pub must_accept: bool,
    pub accepted: bool,
    pub error: Option<String>,
    pub server_app_bytes: usize,
    pub server_connections: usize,
    pub cleartext_connections: usize,
    pub response_equal: Option<bool>,
    pub violation: Option<(String, String)>,
    pub ms: u64,
}

pub fn run_cell(cell: &Cell, seed: u64) -> CellResult {
    let t0 = Instant::now();
    let mut rng = Rng::new(mix(seed, 0xc12));
    let token = format!("tls-{}", rng.below(1_000_000));
    let ipp = ipp_response(&mut rng, 0, 1, &token, vec![]);
    let framing = match rng.below(3) {
        0 => Framing::ContentLength,
        1 => Framing::Chunked(vec![7, 64]),
        _ => Framing::CloseDelimited,
    };
    let script = Script { status: 200, framing, ipp: ipp.clone(), trailing: vec![], segments: vec![*rng.pick(&[5u32, 64, 4096])], fault: None, reset_request_after: None, drip_ms: 0 };
    let mut res = CellResult { cell: cell.describe(), must_accept: cell.must_accept(), accepted: false, error: None, server_app_bytes: 0, server_connections: 0, cleartext_connections: 0, response_equal: None, violation: None, ms: 0 };
    let printer = match TlsPrinter::start(cell.identity, script) {
        Ok(p) => p,
        Err(e) => {
            res.error = Some(format!("harness: {e}"));
            return res;
        }
    };
    let host = match cell.host {
        Host::Localhost => "localhost",
        Host::Ip => "127.0.0.1",
    };
    let scheme = if rng.chance(1, 2) { "ipps" } else { "https" };
    let uri: Uri = format!("{scheme}://{host}:{}/printers/tls", printer.port).parse().expect("uri");
    let roots: Vec<Vec<u8>> = match cell.roots {
        Roots::None => vec![],
        Roots::CorrectPem => vec![fixture("testca.cert.pem")],
        Roots::CorrectDer => vec![fixture("testca.cert.der")],
        Roots::UnrelatedPem => vec![fixture("unrelated.cert.pem")],
        Roots::UnrelatedThenCorrectPem => vec![fixture("unrelated.cert.pem"), fixture("testca.cert.pem")],
        Roots::CorrectDerThenUnrelated => vec![fixture("testca.cert.der"), fixture("unrelated.cert.der")],
    };
    let request = |uri: &Uri| IppOperationBuilder::get_printer_attributes(uri.clone()).build();
    let outcome: Result<Result<Outcome, String>, String> = match cell.client {
        Client::Blocking => {
            let mut b = IppClient::builder(uri.clone()).request_timeout(Duration::from_secs(20));
            match cell.flag {
                Flag::Unset => {}
                Flag::False => b = b.ignore_tls_errors(false),
                Flag::True => b = b.ignore_tls_errors(true),
            }
            for r in &roots {
                b = b.ca_cert(r);
            }
            let client = b.build();
            guarded(|| match client.send(request(&uri)) {
                Ok(resp) => Ok(Outcome::Ok(canon(resp.header(), resp.attributes()))),
                Err(e) => Err(e.to_string()),
            })
        }
        Client::Async => {
            let mut b = AsyncIppClient::builder(uri.clone()).request_timeout(Duration::from_secs(20));
            match cell.flag {
                Flag::Unset => {}
                Flag::False => b = b.ignore_tls_errors(false),
                Flag::True => b = b.ignore_tls_errors(true),
            }
            for r in &roots {
                b = b.ca_cert(r);
            }
            let client = b.build();
            guarded(|| {
                let rt = tokio::runtime::Builder::new_current_thread().enable_all().build().expect("runtime");
                rt.block_on(async {
                    match client.send(request(&uri)).await {
                        Ok(resp) => Ok(Outcome::Ok(canon(resp.header(), resp.attributes()))),
                        Err(e) => Err(format!("{e:?}").chars().take(300).collect::<String>()),
                    }
                })
            })
        }
    };
    let seen = printer.stop();
    res.server_connections = seen.len();
    res.server_app_bytes = seen.iter().map(|c| c.app_bytes).sum();
    res.cleartext_connections = seen.iter().filter(|c| c.handshake_error.as_deref().map(|e| e.starts_with("cleartext")).unwrap_or(false)).count();
    res.ms = t0.elapsed().as_millis() as u64;
    if res.cleartext_connections > 0 {
        res.violation = Some((
            format!("request-sent-in-cleartext {}", cell.describe()),
            format!("the client opened {} connection(s) without TLS to an ipps/https target and delivered {} application bytes", res.cleartext_connections, res.server_app_bytes),
        ));
        return res;
    }
    match outcome {
        Err(p) => {
            res.error = Some(format!("panic: {p}"));
            res.violation = Some((format!("client-panicked {}", cell.describe()), p));
        }
        Ok(Ok(o)) => {
            res.accepted = true;
            let (want, _) = reference(&ipp);
            res.response_equal = Some(o == want);
            if !cell.must_accept() {
                res.violation = Some((
                    format!("invalid-server-accepted {}", cell.describe()),
                    format!("send returned Ok although the server certificate must be rejected; the server application received {} bytes", res.server_app_bytes),
                ));
            } else if o != want {
                res.violation = Some((format!("response-differs {}", cell.describe()), "accepted, but the response differs from what the server sent".into()));
            }
        }
        Ok(Err(e)) => {
            res.error = Some(e.chars().take(240).collect());
            if cell.must_accept() {
                res.violation = Some((
                    format!("valid-server-rejected {}", cell.describe()),
                    format!("send returned Err({}) although the certificate chains to the root supplied through the builder and matches the host (or the caller asked to ignore TLS errors)", e.chars().take(200).collect::<String>()),
                ));
            } else if res.server_app_bytes > 0 {
                res.violation = Some((
                    format!("request-leaked-before-rejection {}", cell.describe()),
                    format!("send returned Err but the server application had already received {} bytes of the request", res.server_app_bytes),
                ));
            }
        }
    }
    res
}

#[derive(Serialize, Deserialize)]
pub struct Replay {
    pub format: String,
    pub property: String,
    pub backend: String,
    pub seed: u64,
    pub cell: Cell,
    pub violation_class: String,
    pub detail: String,
}

fn known(class: &str) -> Option<String> {
    // an open finding matches when every key=value token of its signature occurs in the violation class
    for f in load_findings() {
        if f.property == "C12" && f.status == "open" && !f.signature.is_empty() && f.signature.split_whitespace().all(|tok| class.split_whitespace().any(|c| c == tok)) {
            return Some(f.description.clone());
        }
    }
    None
}

pub struct Half {
    pub results: Vec<CellResult>,
    pub wall_s: f64,
    pub violations: Vec<(Cell, u64, String, String)>,
}

/// The command-line entry point (`ipputil`, blocking client, native-tls): the same accept/reject rule must hold
/// when the caller is the CLI — `-i` is the explicit opt-out, `-c` supplies roots — whatever the user's home directory
/// contains. Black-box: the real binary as a child process against the in-process TLS printer.
fn cli_matrix(seed: u64) -> Vec<(u64, CellResult)> {
    let exe = crate::props::c18::ipputil_path();
    if !exe.exists() {
        println!("C12: note: ipputil binary not built; the command-line cells are skipped");
        return Vec::new();
    }
    let work = verif_root().join("work").join(format!("c12-cli-{}", std::process::id()));
    let home_clean = work.join("home-clean");
    let home_cups = work.join("home-cups");
    let _ = std::fs::create_dir_all(&home_clean);
    let _ = std::fs::create_dir_all(home_cups.join(".cups"));
    let _ = std::fs::write(home_cups.join(".cups/client.conf"), "ServerName print.example.org\n");
    let _ = std::fs::write(home_cups.join(".cups/lpoptions"), "Default office\n");
    let fx = verif_root().join("fixtures/tls");
    let minted = JUST_EXPIRED.get().map(|c| c.is_some()).unwrap_or(false);
    let mut out = Vec::new();
    let mut n = 0u64;
    for identity in [Identity::JustExpired, Identity::Valid, Identity::WrongHost, Identity::Expired, Identity::SelfSigned, Identity::UnknownCa] {
        if identity == Identity::JustExpired && !minted {
            continue;
        }
        for flag in [false, true] {
            for roots in ["none", "pem", "der"] {
                for home in ["clean", "cupsconf"] {
                    n += 1;
                    let cell_seed = mix(seed, 0xc11 + n);
                    let mut rng = Rng::new(cell_seed);
                    let ipp = ipp_response(&mut rng, 0, 1, "cli", vec![]);
                    let script = Script { status: 200, framing: Framing::ContentLength, ipp, trailing: vec![], segments: vec![], fault: None, reset_request_after: None, drip_ms: 0 };
                    let t0 = Instant::now();
                    let Ok(printer) = TlsPrinter::start(identity, script) else { continue };
                    let mut cmd = std::process::Command::new(&exe);
                    if flag {
                        cmd.arg("-i");
                    }
                    match roots {
                        "pem" => {
                            cmd.arg("-c").arg(fx.join("testca.cert.pem"));
                        }
                        "der" => {
                            cmd.arg("-c").arg(fx.join("testca.cert.der"));
                        }
                        _ => {}
                    }
                    cmd.arg("-t").arg("20").arg("status").arg(format!("ipps://127.0.0.1:{}/printers/tls", printer.port));
                    cmd.env("HOME", if home == "clean" { &home_clean } else { &home_cups });
                    cmd.env_remove("LD_PRELOAD").env_remove("CUPS_SERVER").env_remove("CUPS_ENCRYPTION");
                    cmd.stdin(std::process::Stdio::null()).stdout(std::process::Stdio::null()).stderr(std::process::Stdio::piped());
                    let output = cmd.output();
                    let seen = printer.stop();
                    let accepted = output.as_ref().map(|o| o.status.success()).unwrap_or(false);
                    let must_accept = flag || (identity == Identity::Valid && roots != "none");
                    let app_bytes: usize = seen.iter().map(|c| c.app_bytes).sum();
                    let cleartext = seen.iter().filter(|c| c.handshake_error.as_deref().map(|e| e.starts_with("cleartext")).unwrap_or(false)).count();
                    let cell = format!(
                        "backend={} store={} client=ipputil flag={} roots={} identity={} host=ip home={}",
                        BACKEND,
                        store_label(),
                        if flag { "true" } else { "unset" },
                        roots,
                        match identity { Identity::Valid => "valid", Identity::WrongHost => "wronghost", Identity::Expired => "expired", Identity::SelfSigned => "selfsigned", Identity::UnknownCa => "unknownca", Identity::JustExpired => "justexpired" },
                        home
                    );
                    let stderr = output.as_ref().map(|o| String::from_utf8_lossy(&o.stderr).chars().take(160).collect::<String>()).unwrap_or_default();
                    let violation = if cleartext > 0 {
                        Some((format!("request-sent-in-cleartext {cell}"), format!("ipputil opened {cleartext} connection(s) without TLS to an ipps target")))
                    } else if accepted && !must_accept {
                        Some((format!("invalid-server-accepted {cell}"), format!("ipputil exited 0 although the server certificate must be rejected; the server application received {app_bytes} bytes")))
                    } else if !accepted && must_accept {
                        Some((format!("valid-server-rejected {cell}"), format!("ipputil failed ({stderr}) although the certificate chains to the root given with -c and matches the host (or -i was given)")))
                    } else if !accepted && app_bytes > 0 {
                        Some((format!("request-leaked-before-rejection {cell}"), format!("ipputil failed but the server application had already received {app_bytes} bytes")))
                    } else {
                        None
                    };
                    out.push((cell_seed, CellResult { cell, must_accept, accepted, error: if accepted { None } else { Some(stderr) }, server_app_bytes: app_bytes, server_connections: seen.len(), cleartext_connections: cleartext, response_equal: None, violation, ms: t0.elapsed().as_millis() as u64 }));
                }
            }
        }
    }
    let _ = std::fs::remove_dir_all(&work);
    out
}

pub fn run_matrix(seed: u64, tier: Tier) -> Half {
    let t0 = Instant::now();
    let reps = if tier == Tier::Thorough { 3 } else { 1 };
    let minted = JUST_EXPIRED.get_or_init(mint_just_expired).is_some();
    if !minted {
        println!("C12: note: the just-expired identity could not be minted (openssl CLI unavailable?); its cells are skipped");
    }
    let mut cells: Vec<(Cell, u64)> = Vec::new();
    for r in 0..reps {
        let mut cs = Cell::all();
        let mut rng = Rng::new(mix(seed, 0x5eed + r));
        rng.shuffle(&mut cs);
        cs.retain(|c| c.identity != Identity::JustExpired || (minted && r == 0));
        // the just-expired cells go first: they must run within seconds of the minting
        cs.sort_by_key(|c| c.identity != Identity::JustExpired);
        for (i, c) in cs.into_iter().enumerate() {
            cells.push((c, mix(seed, (r << 16) + i as u64)));
        }
    }
    let next = AtomicUsize::new(0);
    let out: Mutex<Vec<(usize, Cell, u64, CellResult)>> = Mutex::new(Vec::new());
    std::thread::scope(|s| {
        for _ in 0..8 {
            s.spawn(|| loop {
                let i = next.fetch_add(1, Ordering::SeqCst);
                if i >= cells.len() {
                    break;
                }
                let (c, sd) = cells[i];
                let r = run_cell(&c, sd);
                out.lock().unwrap().push((i, c, sd, r));
            });
        }
    });
    let mut v = out.into_inner().unwrap();
    v.sort_by_key(|x| x.0);
    let cli: Vec<(u64, CellResult)> = if cfg!(feature = "tlsnative") { cli_matrix(seed) } else { Vec::new() };
    let mut violations = Vec::new();
    for (sd, r) in &cli {
        if let Some((class, detail)) = &r.violation {
            // a CLI cell is replayed by re-running the CLI matrix; the Cell value carried here is only a placeholder
            violations.push((Cell { client: Client::Blocking, flag: Flag::Unset, roots: Roots::None, identity: Identity::Valid, host: Host::Ip }, *sd, format!("{class} [cli]"), detail.clone()));
        }
    }
    for (_, c, sd, r) in &v {
        if let Some((class, detail)) = &r.violation {
            violations.push((*c, *sd, class.clone(), detail.clone()));
        }
    }
    Half { results: v.into_iter().map(|x| x.3).chain(cli.into_iter().map(|x| x.1)).collect(), wall_s: t0.elapsed().as_secs_f64(), violations }
}

/// `ippsim c12 <tier> --part <file>`  : run this backend's half, write it to <file>
/// `ippsim c12 <tier> --merge <file>` : run this backend's half, merge with <file>, write evidence, print verdicts
pub fn main_c12(args: &[String]) -> i32 {
    let tier = match args.get(1).map(|s| s.as_str()) {
        Some("thorough") => Tier::Thorough,
        _ => Tier::Quick,
    };
    let seed = std::env::var("VERIF_SEED").ok().and_then(|v| v.parse().ok()).unwrap_or(1u64);
    let mode = args.get(2).map(|s| s.as_str()).unwrap_or("--merge");
    let file = args.get(3).map(PathBuf::from).unwrap_or_else(|| verif_root().join("work/c12-part.json"));
    println!("C12: tier={} seed={} backend={} trust-store={} cells={}", tier.name(), seed, BACKEND, store_label(), Cell::all().len());
    let half = run_matrix(seed, tier);
    let mut exit = 0;
    let mut known_lines: Vec<String> = Vec::new();
    let mut new_violations = 0u64;
    let mut seen_classes: Vec<String> = Vec::new();
    for (cell, cell_seed, class, detail) in &half.violations {
        if seen_classes.contains(class) {
            continue;
        }
        seen_classes.push(class.clone());
        if let Some(desc) = known(class) {
            let line = format!("KNOWN-FINDING: property=C12 {desc} [{class}]");
            println!("{line}");
            known_lines.push(line);
            continue;
        }
        new_violations += 1;
        let dir = verif_root().join("replays");
        let _ = std::fs::create_dir_all(&dir);
        let p = dir.join(format!("C12-seed{seed}-{}.json", class.replace([' ', '='], "_")));
        let rp = Replay { format: "ippsim-replay-1".into(), property: "C12".into(), backend: BACKEND.into(), seed: *cell_seed, cell: *cell, violation_class: class.clone(), detail: detail.clone() };
        std::fs::write(&p, serde_json::to_vec_pretty(&rp).unwrap()).expect("write replay");
        println!("  violation class={class} detail={detail}");
        println!("VIOLATION property=C12 replay={}", p.display());
        exit = 1;
    }
    let accepted = half.results.iter().filter(|r| r.accepted).count();
    println!("C12[{BACKEND}, {} trust store]: cells={} accepted={} rejected={} violations={} wall={:.1}s", store_label(), half.results.len(), accepted, half.results.len() - accepted, new_violations, half.wall_s);
    let part = json!({"backend": format!("{BACKEND}/{}-trust-store", store_label()), "results": half.results, "wall_s": half.wall_s, "violations": new_violations, "known": known_lines, "exit": exit});
    // the part file accumulates one entry per pass (backend x trust store)
    let mut parts: Vec<Value> = std::fs::read(&file).ok().and_then(|b| serde_json::from_slice(&b).ok()).unwrap_or_default();
    parts.push(part);
    if mode == "--part" {
        if let Some(d) = file.parent() {
            let _ = std::fs::create_dir_all(d);
        }
        std::fs::write(&file, serde_json::to_vec(&parts).unwrap()).expect("write part");
        return exit;
    }
    // merge: this is the last pass
    if parts.len() < 2 {
        eprintln!("harness error: the earlier passes ({}) are missing", file.display());
        return 2;
    }
    let mut all_results: Vec<Value> = Vec::new();
    let mut wall = 0.0;
    let mut viol = 0u64;
    let mut known_all: Vec<String> = Vec::new();
    let mut backends: Vec<String> = Vec::new();
    for o in &parts {
        all_results.extend(o["results"].as_array().cloned().unwrap_or_default());
        wall += o["wall_s"].as_f64().unwrap_or(0.0);
        viol += o["violations"].as_u64().unwrap_or(0);
        for k in o["known"].as_array().cloned().unwrap_or_default() {
            known_all.push(k.as_str().unwrap_or("").to_string());
        }
        backends.push(o["backend"].as_str().unwrap_or("?").to_string());
        if o["exit"].as_i64().unwrap_or(0) != 0 {
            exit = 1;
        }
    }
    write_evidence(tier, seed, &all_results, wall, viol, &known_all, &backends);
    exit
}

fn write_evidence(tier: Tier, seed: u64, results: &[Value], wall: f64, violations: u64, known: &[String], backends: &[String]) {
    let mut fired: BTreeMap<String, u64> = BTreeMap::new();
    let mut distinct = std::collections::BTreeSet::new();
    let mut distinct_reject = std::collections::BTreeSet::new();
    for r in results {
        let cell = r["cell"].as_str().unwrap_or("").to_string();
        distinct.insert(cell.clone());
        let acc = r["accepted"].as_bool().unwrap_or(false);
        let must = r["must_accept"].as_bool().unwrap_or(false);
        *fired.entry(format!("cells.{}", if acc { "accepted" } else { "rejected" })).or_insert(0) += 1;
        *fired.entry(format!("expected.{}", if must { "accept" } else { "reject" })).or_insert(0) += 1;
        for tok in cell.split_whitespace() {
            if tok.starts_with("identity=") || tok.starts_with("backend=") || tok.starts_with("client=") || tok.starts_with("store=") {
                *fired.entry(format!("handshakes.{tok}")).or_insert(0) += 1;
            }
        }
        if !must {
            distinct_reject.insert(cell);
            if r["server_app_bytes"].as_u64().unwrap_or(0) == 0 {
                *fired.entry("rejected_with_zero_application_bytes_at_server".into()).or_insert(0) += 1;
            }
        }
    }
    let samples: Vec<Value> = results.iter().take(3).cloned().chain(results.iter().filter(|r| r["accepted"].as_bool() == Some(true)).take(2).cloned()).collect();
    let doc = json!({
        "property_id": "C12",
        "tier": tier.name(),
        "seed": seed,
        "level": "fault_enumeration",
        "coverage": {
            "evaluations": results.len(),
            "distinct_nontrivial": distinct_reject.len(),
            "distinct_cells": distinct.len(),
            "rule": "Complete enumeration of the matrix client {blocking, async} x ignore flag {unset, false, true} x extra roots {none, correct PEM, correct DER, unrelated PEM, unrelated then correct PEM, correct DER then unrelated} x server identity {valid, wrong host (SAN printer.invalid), expired (2020-01..2020-02), self-signed leaf, signed by an unknown CA, expired 20 seconds ago (minted at the start of each pass with the openssl CLI; skipped if that is unavailable)} x URI host {localhost, 127.0.0.1} = 432 cells per TLS backend, for both backends (native-tls and rustls; one harness build each) — plus, in the native-tls passes, 72 cells through the command-line entry point (the real ipputil binary: -i absent/present x -c none/PEM/DER x the six identities x a clean home directory / one with ~/.cups/client.conf) —, each once with the machine's trust store and once with an EMPTY system trust store (SSL_CERT_FILE / SSL_CERT_DIR pointed at empty fixtures; a separate process because the stores are cached per process) = 1728 real handshakes per repetition (quick: 1 repetition, thorough: 3 with different seeds) against an in-process server on loopback that speaks TLS (rustls) and, like cupsd, also plain HTTP on the same port (a client that falls back to cleartext is seen delivering its request); the seed permutes the order and draws the request/response. Oracle: accept iff flag == true or (identity == valid and the correct root is among those supplied through the builder); accept => Ok and response equal to the scripted one; reject => Err and the server application received 0 bytes after the handshake. distinct_nontrivial = distinct must-reject cells executed (the fault cells); distinct_cells = all distinct cells.",
            "exhaustive": true,
            "samples": samples,
            "fired": fired,
            "backends": backends,
            "runs_per_hour": if wall > 0.0 { (results.len() as f64 / wall * 3600.0) as u64 } else { 0 },
            "simulated_time": "none: real handshakes on loopback, real wall clock (certificate validity windows are decades wide / decades past, so the clock cannot flip a cell)",
            "known_findings_reported": known,
            "components": {
                "real": ["IppClient::send / AsyncIppClient::send TLS configuration blocks (native-tls, rustls, reqwest+native-tls, reqwest+rustls)", "ureq, reqwest, hyper, tokio", "OpenSSL / rustls+webpki verification", "kernel loopback TCP", "wall clock"],
                "simulated": ["TLS server identity (fixture certificates) and the IPP printer behind it (in-process rustls server + scripted printer)"],
                "stubbed": []
            }
        },
        "assumptions": [
            "the system trust store does not contain the test CA",
            "fixture validity: valid leaves 2020-2125, expired leaf 2020-01-01..2020-02-01; the wall clock is real but cannot flip a case",
            "loopback sockets and OS scheduling are real: this check is outcome-deterministic, not schedule-deterministic",
            "'localhost' resolves to 127.0.0.1 (the server listens on IPv4 loopback only)"
        ],
        "wall_s": wall,
        "violations": violations,
    });
    let p = verif_root().join("evidence/C12.json");
    if let Some(d) = p.parent() {
        let _ = std::fs::create_dir_all(d);
    }
    std::fs::write(&p, serde_json::to_vec_pretty(&doc).unwrap()).expect("write evidence");
}

pub fn replay_c12(path: &Path) -> i32 {
    let rp: Replay = match std::fs::read(path).ok().and_then(|b| serde_json::from_slice(&b).ok()) {
        Some(r) => r,
        None => {
            eprintln!("harness error: cannot read {}", path.display());
            return 2;
        }
    };
    if rp.backend != BACKEND {
        eprintln!("harness error: replay is for backend {}, this binary is {}", rp.backend, BACKEND);
        return 2;
    }
    let r = run_cell(&rp.cell, rp.seed);
    println!("{}", serde_json::to_string_pretty(&r).unwrap());
    match r.violation {
        Some((class, detail)) => {
            println!("  violation class={class} detail={detail}");
            println!("VIOLATION property=C12 replay={}", path.display());
            1
        }
        None => {
            println!("C12: replay {} no longer reproduces", path.display());
            0
        }
    }
}
