//! C18 — `ipputil print` end to end (black-box tier): the real binary built from /repo (guard off) as a separate
//! process against the seeded scripted printer on loopback; request history + exit status against a small
//! reference model of the command.

use std::{
    collections::BTreeMap,
    io::Write,
    path::PathBuf,
    process::{Command, Stdio},
    sync::atomic::{AtomicU64, Ordering},
    time::{Duration, Instant},
};

use serde::{Deserialize, Serialize};
use serde_json::{json, Value};

use crate::{
    framework::{verif_root, Prop, RunReport, Tier},
    gen::{gen_ascii, gen_payload, gen_utf8},
    printer::{gen_framing, gen_segments, int_attr, text_attr, Script, ERROR_STATUSES},
    refcodec::{self, hexbytes, WAttr, WGroup, WMsg, WVal},
    rng::Rng,
    tcp::TcpPrinter,
};

const BLOCKING: [&str; 10] = ["media-jam", "toner-empty", "spool-area-full", "cover-open", "door-open", "input-tray-missing", "output-tray-missing", "marker-supply-empty", "paused", "shutdown"];
const INFORMATIONAL: [&str; 6] = ["none", "media-low", "toner-low", "marker-supply-low", "connecting-to-device", "moving-to-paused"];

#[derive(Clone, Debug, Serialize, Deserialize, PartialEq)]
pub enum StateSpec {
    Absent,
    Idle,
    Processing,
    Stopped,
    /// unregistered enum value — the statement leaves this open (don't-care)
    OtherValue(i32),
    /// printer-state sent with a non-enum syntax — don't-care
    WrongSyntax,
}

#[derive(Clone, Debug, Serialize, Deserialize)]
pub struct PrinterReply {
    pub http_status: u16,
    pub ipp_status: u16,
    pub state: StateSpec,
    /// None = attribute absent; one element = single keyword; several = 1setOf keyword
    pub reasons: Option<Vec<String>>,
    pub framing: crate::printer::Framing,
    pub segments: Vec<u32>,
}

#[derive(Clone, Debug, Serialize, Deserialize)]
pub struct JobReply {
    pub http_status: u16,
    pub ipp_status: u16,
    pub framing: crate::printer::Framing,
    pub segments: Vec<u32>,
}

#[derive(Clone, Debug, Serialize, Deserialize)]
pub struct Case {
    #[serde(with = "hexbytes")]
    pub document: Vec<u8>,
    pub via_stdin: bool,
    pub job_name: Option<String>,
    pub user_name: Option<String>,
    pub options: Vec<(String, String)>,
    pub no_check: bool,
    pub headers: Vec<(String, String)>,
    pub path: String,
    pub scheme: String,
    pub gpa: PrinterReply,
    pub job: JobReply,
    /// the -f path is a symbolic link to the document
    #[serde(default)]
    pub via_symlink: bool,
    /// connection closed by the printer at this offset inside the IPP header+attributes of the reply (a failed exchange)
    #[serde(default)]
    pub gpa_cut: Option<u32>,
    #[serde(default)]
    pub job_cut: Option<u32>,
    /// shape of the job-attributes part of the Print-Job reply: 0 = three attributes, 1 = empty group, 2 = no group,
    /// 3 = two groups
    #[serde(default)]
    pub job_reply_shape: u8,
    /// the document is a file literally named `-` in the working directory of the command (`-f -`); standard input
    /// then carries different bytes
    #[serde(default)]
    pub dash_file: bool,
    /// the successful Print-Job reply carries an unsupported-attributes group that names this many of the given options
    #[serde(default)]
    pub unsupported_echo: u8,
}

#[derive(Clone, Copy)]
pub struct C18;

pub fn ipputil_path() -> PathBuf {
    std::env::var("VERIF_IPPUTIL").map(PathBuf::from).unwrap_or_else(|_| verif_root().join("target-ipputil/release/ipputil"))
}

fn successful(ipp_status: u16) -> bool {
    ipp_status <= 0x0002
}

#[derive(Debug, PartialEq, Clone)]
enum Typed {
    Bool(bool),
    Int(i32),
    Keyword(String),
}

fn classify(v: &str) -> Typed {
    match v {
        "true" => Typed::Bool(true),
        "false" => Typed::Bool(false),
        _ => {
            let digits = v.strip_prefix('-').unwrap_or(v);
            if !digits.is_empty() && digits.bytes().all(|b| b.is_ascii_digit()) {
                if let Ok(i) = v.parse::<i32>() {
                    return Typed::Int(i);
                }
            }
            Typed::Keyword(v.to_string())
        }
    }
}

fn typed_of_wire(v: &WVal) -> Option<Typed> {
    match v {
        WVal::Scalar { tag: 0x22, body } if body.len() == 1 => Some(Typed::Bool(body[0] != 0)),
        WVal::Scalar { tag: 0x21, body } if body.len() == 4 => Some(Typed::Int(i32::from_be_bytes([body[0], body[1], body[2], body[3]]))),
        WVal::Scalar { tag: 0x44, body } => Some(Typed::Keyword(String::from_utf8_lossy(body).into_owned())),
        _ => None,
    }
}

fn attr<'a>(g: &'a WGroup, name: &str) -> Option<&'a WAttr> {
    g.attrs.iter().find(|a| a.name == name.as_bytes())
}

fn gpa_ipp(rng_tok: u32, r: &PrinterReply) -> Vec<u8> {
    let op = vec![text_attr("attributes-charset", 0x47, b"utf-8"), text_attr("attributes-natural-language", 0x48, b"en")];
    let mut pa = vec![text_attr("printer-name", 0x42, format!("sim{rng_tok}").as_bytes())];
    match &r.state {
        StateSpec::Absent => {}
        StateSpec::Idle => pa.push(int_attr("printer-state", 0x23, 3)),
        StateSpec::Processing => pa.push(int_attr("printer-state", 0x23, 4)),
        StateSpec::Stopped => pa.push(int_attr("printer-state", 0x23, 5)),
        StateSpec::OtherValue(v) => pa.push(int_attr("printer-state", 0x23, *v)),
        StateSpec::WrongSyntax => pa.push(text_attr("printer-state", 0x44, b"stopped")),
    }
    if let Some(rs) = &r.reasons {
        pa.push(WAttr { name: b"printer-state-reasons".to_vec(), values: rs.iter().map(|k| WVal::Scalar { tag: 0x44, body: k.as_bytes().to_vec() }).collect() });
    }
    pa.push(text_attr("printer-make-and-model", 0x41, b"SimPrinter 3000"));
    let m = WMsg { version: 0x0101, op: r.ipp_status, reqid: 1, groups: vec![WGroup { tag: 0x01, attrs: op }, WGroup { tag: 0x04, attrs: pa }] };
    refcodec::encode(&m).bytes
}

fn job_ipp(r: &JobReply, shape: u8, unsupported: &[String]) -> Vec<u8> {
    let op = vec![text_attr("attributes-charset", 0x47, b"utf-8"), text_attr("attributes-natural-language", 0x48, b"en")];
    let ja = vec![int_attr("job-id", 0x21, 42), text_attr("job-uri", 0x45, b"ipp://127.0.0.1/jobs/42"), int_attr("job-state", 0x23, 3)];
    let mut groups = vec![WGroup { tag: 0x01, attrs: op }];
    match shape {
        1 => groups.push(WGroup { tag: 0x02, attrs: vec![] }),
        2 => {}
        3 => {
            groups.push(WGroup { tag: 0x02, attrs: ja.clone() });
            groups.push(WGroup { tag: 0x02, attrs: vec![text_attr("job-state-reasons", 0x44, b"none")] });
        }
        _ => groups.push(WGroup { tag: 0x02, attrs: ja }),
    }
    if !unsupported.is_empty() {
        // RFC 8011 4.1.7: a printer lists what it ignored in an unsupported-attributes group; the status stays successful
        let mut seen = std::collections::BTreeSet::new();
        let attrs = unsupported.iter().filter(|k| seen.insert((*k).clone())).map(|k| WAttr { name: k.as_bytes().to_vec(), values: vec![WVal::Scalar { tag: 0x10, body: vec![] }] }).collect();
        groups.insert(1, WGroup { tag: 0x05, attrs });
    }
    let m = WMsg { version: 0x0101, op: r.ipp_status, reqid: 1, groups };
    refcodec::encode(&m).bytes
}

/// What the statement requires of the query phase: Some(true) = must go on to submit, Some(false) = must not
/// submit, None = the statement leaves it open.
fn model_gate(c: &Case) -> Option<bool> {
    if c.no_check {
        return Some(true);
    }
    if c.gpa.http_status >= 400 || c.gpa_cut.is_some() {
        return Some(false);
    }
    if !successful(c.gpa.ipp_status) {
        return Some(false);
    }
    if c.gpa.state == StateSpec::Stopped {
        return Some(false);
    }
    if let Some(rs) = &c.gpa.reasons {
        if rs.iter().any(|k| BLOCKING.contains(&k.as_str())) {
            return Some(false);
        }
    }
    match c.gpa.state {
        StateSpec::OtherValue(_) | StateSpec::WrongSyntax => None,
        _ => Some(true),
    }
}

static FILE_SEQ: AtomicU64 = AtomicU64::new(0);

impl Prop for C18 {
    type Case = Case;
    fn id(&self) -> &'static str {
        "C18"
    }
    fn level(&self) -> &'static str {
        "exploration"
    }
    fn default_runs(&self, tier: Tier) -> u64 {
        match tier {
            Tier::Quick => 1_500,
            Tier::Thorough => 24_000,
        }
    }

    fn gen(&self, rng: &mut Rng, tier: Tier, _run: u64) -> Case {
        let max_doc = if rng.chance(1, if tier == Tier::Thorough { 100 } else { 300 }) { 2 << 20 } else { 8192 };
        let document = gen_payload(rng, max_doc);
        let nopt = rng.usize(0, 6);
        let mut options: Vec<(String, String)> = Vec::new();
        for _ in 0..nopt {
            let key = if !options.is_empty() && rng.chance(1, 4) {
                rng.pick(&options).clone().0
            } else if rng.chance(1, 6) {
                // names that mean something elsewhere in the message are still just job attributes here
                rng.pick(&["job-id", "job-uri", "printer-uri", "attributes-charset", "attributes-natural-language", "job-name", "requesting-user-name", "copies", "sides", "media"]).to_string()
            } else {
                format!("x{}", gen_ascii(rng, 8))
            };
            let value: String = match rng.below(10) {
                0 => "true".into(),
                1 => "false".into(),
                2 => (*rng.pick(&["0", "1", "-1", "007", "2147483647", "-2147483648", "42", "-0"])).to_string(),
                3 => (*rng.pick(&["2147483648", "-2147483649", "99999999999", "1e3", "0x10", "1.5", " 5", "5 ", "", "True", "FALSE", "--1"])).to_string(),
                // text that looks like some other IPP syntax is still a keyword
                8 => (*rng.pick(&["600dpi", "300x300dpi", "100dpcm", "1200x600dpi", "1-5", "1,2,3", "2024-01-01", "12:30", "yes", "no", "on", "off", "null", "none", "3..7", "iso_a4_210x297mm", "na_letter_8.5x11in", "50%", "#1", "1_000"])).to_string(),
                4 => format!("{}", rng.next() as i32),
                5 => format!("{}={}", gen_ascii(rng, 4), gen_ascii(rng, 4)),
                6 => "a=b=c".into(),
                _ => {
                    let s = gen_ascii(rng, 12);
                    if s.is_empty() {
                        "kw".into()
                    } else {
                        s
                    }
                }
            };
            options.push((key, value));
        }
        let clean = |s: String| -> String {
            let t: String = s.chars().filter(|c| *c != '\0').collect();
            if t.starts_with('-') {
                format!("n{t}")
            } else {
                t
            }
        };
        let job_name = if rng.chance(1, 2) { Some(clean(gen_utf8(rng, 24))) } else { None };
        let user_name = if rng.chance(1, 2) { Some(clean(gen_utf8(rng, 16))) } else { None };
        let nh = rng.usize(0, 3);
        let headers = (0..nh).map(|i| (format!("x-util-{}{}", gen_ascii(rng, 5), i), gen_ascii(rng, 10) + "v")).collect();
        let state = match rng.below(12) {
            0 => StateSpec::Absent,
            1..=3 => StateSpec::Idle,
            4..=5 => StateSpec::Processing,
            6..=8 => StateSpec::Stopped,
            9 => StateSpec::OtherValue(*rng.pick(&[0, 6, 2, -1])),
            10 => StateSpec::WrongSyntax,
            _ => StateSpec::Idle,
        };
        let reasons = match rng.below(8) {
            0 | 1 => None,
            2 => Some(vec!["none".to_string()]),
            3 => Some(vec![rng.pick(&BLOCKING).to_string()]),
            4 | 5 => {
                let n = rng.usize(2, 5);
                let mut v: Vec<String> = (0..n).map(|_| rng.pick(&INFORMATIONAL).to_string()).collect();
                let at = rng.usize(0, n - 1);
                v[at] = rng.pick(&BLOCKING).to_string();
                Some(v)
            }
            _ => {
                let n = rng.usize(1, 4);
                Some((0..n).map(|_| rng.pick(&INFORMATIONAL).to_string()).collect())
            }
        };
        let gpa = PrinterReply {
            http_status: if rng.chance(1, 8) { *rng.pick(&ERROR_STATUSES) } else { 200 },
            ipp_status: if rng.chance(1, 6) { *rng.pick(&[0x0400u16, 0x0401, 0x0406, 0x0500, 0x0503, 0x0507]) } else { *rng.pick(&[0u16, 0, 0, 1, 2]) },
            state,
            reasons,
            framing: gen_framing(rng),
            segments: gen_segments(rng),
        };
        let job = JobReply {
            http_status: if rng.chance(1, 8) { *rng.pick(&ERROR_STATUSES) } else { 200 },
            ipp_status: if rng.chance(1, 5) { *rng.pick(&[0x0400u16, 0x040a, 0x0506, 0x0509, 0x0100, 0x00ff, 0x0003]) } else { *rng.pick(&[0u16, 0, 1, 2]) },
            framing: gen_framing(rng),
            segments: gen_segments(rng),
        };
        Case {
            document,
            via_stdin: rng.chance(1, 4),
            job_name,
            user_name,
            options,
            no_check: rng.chance(1, 3),
            headers,
            path: format!("/printers/{}", gen_ascii(rng, 8) + "p"),
            scheme: rng.pick(&["http", "ipp"]).to_string(),
            gpa,
            job,
            via_symlink: rng.chance(1, 8),
            gpa_cut: if rng.chance(1, 12) { Some(rng.below(200) as u32) } else { None },
            job_cut: if rng.chance(1, 12) { Some(rng.below(200) as u32) } else { None },
            job_reply_shape: *rng.pick(&[0u8, 0, 0, 1, 2, 3]),
            dash_file: rng.chance(1, 25),
            unsupported_echo: if rng.chance(1, 6) { rng.range(1, 3) as u8 } else { 0 },
        }
    }

    fn run(&self, case: &Case, record: bool) -> RunReport {
        let mut rep = RunReport::default();
        let exe = ipputil_path();
        if !exe.exists() {
            rep.violate("harness-panic", format!("ipputil binary missing at {} (bin/setup builds it)", exe.display()));
            return rep;
        }
        let mut scripts: BTreeMap<u32, Script> = BTreeMap::new();
        scripts.insert(0x000b, Script { status: case.gpa.http_status, framing: case.gpa.framing.clone(), ipp: gpa_ipp(7, &case.gpa), trailing: vec![], segments: case.gpa.segments.clone(), fault: None, reset_request_after: None, drip_ms: 0 });
        scripts.insert(0x0002, Script { status: case.job.http_status, framing: case.job.framing.clone(), ipp: job_ipp(&case.job, case.job_reply_shape, &case.options.iter().take(case.unsupported_echo as usize).map(|(k, _)| k.clone()).filter(|k| !k.is_empty()).collect::<Vec<_>>()), trailing: vec![], segments: case.job.segments.clone(), fault: None, reset_request_after: None, drip_ms: 0 });
        if let Some(k) = case.gpa_cut {
            let sc = scripts.get_mut(&0x000b).unwrap();
            let k = k.min(sc.ipp.len() as u32 - 1);
            sc.fault = Some(crate::printer::RespFault { at: crate::printer::FaultAt::Body(k), kind: crate::printer::RespFaultKind::Cut });
        }
        if let Some(k) = case.job_cut {
            let sc = scripts.get_mut(&0x0002).unwrap();
            let k = k.min(sc.ipp.len() as u32 - 1);
            sc.fault = Some(crate::printer::RespFault { at: crate::printer::FaultAt::Body(k), kind: crate::printer::RespFaultKind::Cut });
        }
        let printer = match TcpPrinter::start_keyed(scripts, true) {
            Ok(p) => p,
            Err(e) => {
                rep.count("harness_bind_failures", 1);
                rep.log = Some(json!({"harness": format!("{e}")}));
                return rep;
            }
        };
        let port = printer.port;
        let uri = format!("{}://127.0.0.1:{}{}", case.scheme, port, case.path);
        let dir = verif_root().join("work").join(format!("c18-{}", std::process::id()));
        let _ = std::fs::create_dir_all(&dir);
        let mut cmd = Command::new(&exe);
        for (k, v) in &case.headers {
            cmd.arg("-H").arg(format!("{k}={v}"));
        }
        cmd.arg("print");
        if case.no_check {
            cmd.arg("-n");
        }
        let mut file_path = None;
        let mut link_path: Option<PathBuf> = None;
        let mut cwd_dir: Option<PathBuf> = None;
        if !case.via_stdin {
            let p = if case.dash_file {
                // its own directory, used as the working directory of the command
                let d = dir.join(format!("cwd-{}", FILE_SEQ.fetch_add(1, Ordering::SeqCst)));
                let _ = std::fs::create_dir_all(&d);
                cmd.current_dir(&d);
                cwd_dir = Some(d.clone());
                d.join("-")
            } else {
                dir.join(format!("doc-{}.bin", FILE_SEQ.fetch_add(1, Ordering::SeqCst)))
            };
            std::fs::write(&p, &case.document).expect("write document");
            if case.dash_file {
                cmd.arg("-f").arg("-");
            } else if case.via_symlink {
                let l = dir.join(format!("link-{}.bin", FILE_SEQ.fetch_add(1, Ordering::SeqCst)));
                let _ = std::fs::remove_file(&l);
                std::os::unix::fs::symlink(&p, &l).expect("symlink");
                cmd.arg("-f").arg(&l);
                link_path = Some(l);
            } else {
                cmd.arg("-f").arg(&p);
            }
            file_path = Some(p);
        }
        if let Some(j) = &case.job_name {
            cmd.arg("-j").arg(j);
        }
        if let Some(u) = &case.user_name {
            cmd.arg("-u").arg(u);
        }
        for (k, v) in &case.options {
            cmd.arg("-o").arg(format!("{k}={v}"));
        }
        cmd.arg(&uri);
        cmd.stdin(if case.via_stdin || (case.dash_file && !case.via_stdin) { Stdio::piped() } else { Stdio::null() }).stdout(Stdio::null()).stderr(Stdio::piped());
        cmd.env_remove("LD_PRELOAD");
        let mut child = match cmd.spawn() {
            Ok(c) => c,
            Err(e) => {
                rep.violate("harness-panic", format!("cannot spawn ipputil: {e}"));
                return rep;
            }
        };
        if case.dash_file && !case.via_stdin {
            if let Some(mut si) = child.stdin.take() {
                std::thread::spawn(move || {
                    let _ = si.write_all(b"THIS IS STANDARD INPUT, NOT THE FILE NAMED DASH");
                });
            }
        }
        if case.via_stdin {
            let mut si = child.stdin.take().unwrap();
            let doc = case.document.clone();
            std::thread::spawn(move || {
                let _ = si.write_all(&doc);
            });
        }
        let t0 = Instant::now();
        let status = loop {
            match child.try_wait() {
                Ok(Some(s)) => break Some(s),
                Ok(None) => {
                    if t0.elapsed() > Duration::from_secs(45) {
                        let _ = child.kill();
                        let _ = child.wait();
                        break None;
                    }
                    std::thread::sleep(Duration::from_micros(300));
                }
                Err(_) => break None,
            }
        };
        let mut stderr = String::new();
        if let Some(mut e) = child.stderr.take() {
            use std::io::Read;
            let _ = e.read_to_string(&mut stderr);
        }
        let seen = printer.stop();
        if let Some(p) = file_path {
            let _ = std::fs::remove_file(p);
        }
        if let Some(p) = link_path {
            let _ = std::fs::remove_file(p);
        }
        if let Some(d) = cwd_dir {
            let _ = std::fs::remove_dir_all(d);
            rep.count("document_is_a_file_named_dash", 1);
        }
        if case.unsupported_echo > 0 && !case.options.is_empty() {
            rep.count("print_job_reply_lists_given_options_as_unsupported", 1);
        }
        if case.via_symlink && !case.via_stdin {
            rep.count("document_via_symlink", 1);
        }
        if case.gpa_cut.is_some() || case.job_cut.is_some() {
            rep.count("reply_cut_inside_attributes", 1);
        }
        rep.count(&format!("job_reply_shape_{}", case.job_reply_shape), 1);
        rep.count(if case.no_check { "with_no_check_flag" } else { "with_state_check" }, 1);
        rep.count(if case.via_stdin { "document_via_stdin" } else { "document_via_file" }, 1);
        rep.count("document_bytes", case.document.len() as u64);
        rep.count("options", case.options.len() as u64);
        rep.count("requests_seen", seen.len() as u64);
        rep.count(&format!("gate.{}", match model_gate(case) { Some(true) => "must_submit", Some(false) => "must_not_submit", None => "dont_care" }), 1);
        let Some(status) = status else {
            rep.violate("hang", "ipputil did not exit within 45 s".into());
            return rep;
        };
        let exit_ok = status.success();
        let complete: Vec<_> = seen.iter().filter(|c| c.req.complete).collect();
        let ops: Vec<u16> = complete.iter().map(|c| if c.req.body.len() >= 4 { u16::from_be_bytes([c.req.body[2], c.req.body[3]]) } else { 0xffff }).collect();
        rep.trace_hash = {
            let mut f = crate::rng::Fnv::default();
            f.bytes(serde_json::to_string(&(&case.options, &case.job_name, &case.user_name, case.no_check, &case.gpa, &case.job, case.document.len())).unwrap_or_default().as_bytes());
            for o in &ops {
                f.u64(*o as u64);
            }
            f.u64(exit_ok as u64);
            f.finish()
        };
        rep.nontrivial = true;
        if record {
            rep.log = Some(json!({
                "argv_summary": {"no_check": case.no_check, "stdin": case.via_stdin, "job_name": case.job_name, "user_name": case.user_name, "options": case.options, "headers": case.headers, "uri": uri},
                "printer": {"get_printer_attributes": {"http": case.gpa.http_status, "ipp": case.gpa.ipp_status, "state": format!("{:?}", case.gpa.state), "reasons": case.gpa.reasons}, "print_job": {"http": case.job.http_status, "ipp": case.job.ipp_status}},
                "history_operations": ops.iter().map(|o| format!("{o:#06x}")).collect::<Vec<_>>(),
                "exit_success": exit_ok, "stderr": stderr.chars().take(200).collect::<String>(),
            }));
        }

        // ---- history against the model
        let mut idx = 0usize;
        if !case.no_check {
            if ops.first() != Some(&0x000b) {
                rep.violate("state-query-missing", format!("without -n the first request must be Get-Printer-Attributes; history: {ops:04x?}"));
                return rep;
            }
            idx = 1;
            // the query goes to the given printer
            if let Ok((m, _)) = refcodec::decode(&complete[0].req.body) {
                let want = format!("ipp://127.0.0.1:{port}{}", case.path);
                let got = m.groups.first().and_then(|g| attr(g, "printer-uri")).and_then(|a| a.values.first().cloned());
                if got != Some(WVal::Scalar { tag: 0x45, body: want.as_bytes().to_vec() }) {
                    rep.violate("query-wrong-printer", format!("Get-Printer-Attributes printer-uri {got:?}, expected {want}"));
                    return rep;
                }
            }
        }
        let submitted = ops[idx..].iter().filter(|o| **o == 0x0002).count();
        let others = ops[idx..].iter().filter(|o| **o != 0x0002).count();
        if others > 0 {
            rep.violate("unexpected-request", format!("history contains requests other than the query and Print-Job: {ops:04x?}"));
            return rep;
        }
        match model_gate(case) {
            Some(false) => {
                if submitted > 0 {
                    rep.violate("submitted-despite-not-ready", format!("printer answered http={} ipp={:#06x} state={:?} reasons={:?}, yet a Print-Job was submitted", case.gpa.http_status, case.gpa.ipp_status, case.gpa.state, case.gpa.reasons));
                    return rep;
                }
                if exit_ok {
                    rep.violate("exit-status-wrong", "nothing was submitted because the printer was not ready / the query failed, yet ipputil exited 0".into());
                }
                return rep;
            }
            Some(true) => {
                if submitted != 1 {
                    rep.violate("job-not-submitted-once", format!("expected exactly one Print-Job, saw {submitted}; history {ops:04x?}; stderr: {}", stderr.chars().take(160).collect::<String>()));
                    return rep;
                }
            }
            None => {
                if submitted > 1 {
                    rep.violate("job-not-submitted-once", format!("saw {submitted} Print-Job requests"));
                    return rep;
                }
                if submitted == 0 {
                    if exit_ok {
                        rep.violate("exit-status-wrong", "nothing was submitted, yet ipputil exited 0".into());
                    }
                    return rep;
                }
            }
        }
        // ---- the Print-Job request
        let pj = complete.iter().find(|c| c.req.body.len() >= 4 && u16::from_be_bytes([c.req.body[2], c.req.body[3]]) == 0x0002).unwrap();
        // -H headers are an input dimension of the quantifier, not a clause of the statement: logged, never judged
        // (C11 decides custom headers for the client library)
        for (k, v) in &case.headers {
            if pj.req.headers_named(k).iter().any(|x| x == v) {
                rep.count("diagnostic.custom_header_seen_on_print_job", 1);
            } else {
                rep.count("diagnostic.custom_header_not_seen_on_print_job", 1);
            }
        }
        let (m, boundary) = match refcodec::decode(&pj.req.body) {
            Ok(x) => x,
            Err(e) => {
                rep.violate("print-job-malformed", format!("reference decoder rejects the Print-Job request: {e}"));
                return rep;
            }
        };
        let doc = &pj.req.body[boundary..];
        if doc != &case.document[..] {
            let first = doc.iter().zip(case.document.iter()).position(|(a, b)| a != b).unwrap_or(doc.len().min(case.document.len()));
            rep.violate("document-bytes-differ", format!("printer received {} document bytes, the input has {}; first difference at {first}", doc.len(), case.document.len()));
            return rep;
        }
        let Some(opg) = m.groups.first().filter(|g| g.tag == 0x01) else {
            rep.violate("print-job-malformed", "first group is not the operation group".into());
            return rep;
        };
        let want_uri = format!("ipp://127.0.0.1:{port}{}", case.path);
        if attr(opg, "printer-uri").and_then(|a| a.values.first().cloned()) != Some(WVal::Scalar { tag: 0x45, body: want_uri.as_bytes().to_vec() }) {
            rep.violate("job-wrong-printer", format!("Print-Job printer-uri is not {want_uri}"));
            return rep;
        }
        if let Some(j) = &case.job_name {
            if attr(opg, "job-name").map(|a| a.values.clone()) != Some(vec![WVal::Scalar { tag: 0x42, body: j.as_bytes().to_vec() }]) {
                rep.violate("job-name-differs", format!("job-name on the wire: {:?}, expected name {j:?}", attr(opg, "job-name")));
                return rep;
            }
        }
        if let Some(u) = &case.user_name {
            if attr(opg, "requesting-user-name").map(|a| a.values.clone()) != Some(vec![WVal::Scalar { tag: 0x42, body: u.as_bytes().to_vec() }]) {
                rep.violate("user-name-differs", format!("requesting-user-name on the wire: {:?}, expected name {u:?}", attr(opg, "requesting-user-name")));
                return rep;
            }
        }
        // job attributes typed by their text; the last value given for a key wins
        let mut want: BTreeMap<String, Typed> = BTreeMap::new();
        for (k, v) in &case.options {
            want.insert(k.clone(), classify(v));
        }
        let mut got: BTreeMap<String, Option<Typed>> = BTreeMap::new();
        for g in m.groups.iter().filter(|g| g.tag == 0x02) {
            for a in &g.attrs {
                let t = if a.values.len() == 1 { typed_of_wire(&a.values[0]) } else { None };
                got.insert(String::from_utf8_lossy(&a.name).into_owned(), t);
            }
        }
        let want_cmp: BTreeMap<String, Option<Typed>> = want.into_iter().map(|(k, v)| (k, Some(v))).collect();
        if got != want_cmp {
            rep.violate("job-attributes-differ", format!("job attributes on the wire {got:?}, expected {want_cmp:?}"));
            return rep;
        }
        let want_exit = case.job.http_status == 200 && successful(case.job.ipp_status) && case.job_cut.is_none();
        if exit_ok != want_exit {
            rep.violate("exit-status-wrong", format!("Print-Job reply http={} ipp={:#06x}: exit status {} but expected {}", case.job.http_status, case.job.ipp_status, if exit_ok { "0" } else { "non-zero" }, if want_exit { "0" } else { "non-zero" }));
        }
        rep
    }

    fn shrink(&self, c: &Case) -> Vec<Case> {
        let mut out = Vec::new();
        if !c.document.is_empty() {
            out.push(Case { document: vec![], ..c.clone() });
            out.push(Case { document: c.document[..c.document.len() / 2].to_vec(), ..c.clone() });
        }
        for i in 0..c.options.len() {
            let mut o = c.options.clone();
            o.remove(i);
            out.push(Case { options: o, ..c.clone() });
        }
        if !c.headers.is_empty() {
            out.push(Case { headers: vec![], ..c.clone() });
        }
        if c.job_name.is_some() {
            out.push(Case { job_name: None, ..c.clone() });
        }
        if c.user_name.is_some() {
            out.push(Case { user_name: None, ..c.clone() });
        }
        if c.via_stdin {
            out.push(Case { via_stdin: false, ..c.clone() });
        }
        if c.via_symlink {
            out.push(Case { via_symlink: false, ..c.clone() });
        }
        if c.dash_file {
            out.push(Case { dash_file: false, ..c.clone() });
        }
        if c.unsupported_echo > 0 {
            out.push(Case { unsupported_echo: 0, ..c.clone() });
        }
        if c.job_reply_shape != 0 {
            out.push(Case { job_reply_shape: 0, ..c.clone() });
        }
        if !c.gpa.segments.is_empty() || !c.job.segments.is_empty() {
            let mut d = c.clone();
            d.gpa.segments = vec![];
            d.job.segments = vec![];
            out.push(d);
        }
        if let Some(rs) = &c.gpa.reasons {
            if rs.len() > 1 {
                for i in 0..rs.len() {
                    let mut d = c.clone();
                    let mut r = rs.clone();
                    r.remove(i);
                    d.gpa.reasons = Some(r);
                    out.push(d);
                }
            }
        }
        out
    }

    fn rule(&self) -> String {
        "Each run starts the real ipputil binary (built from /repo, hooks off) as a child process with a seeded command line — document from a file or stdin (0 B to 2 MiB of arbitrary bytes), optional -j / -u, 0-6 -o key=value options with values of every textual class (true/false, decimal i32 incl. range edges and leading zeros, out-of-range and non-decimal look-alikes, text containing '='; duplicate keys, last wins), -n on/off, 0-3 -H headers — against the scripted printer on loopback: reply to Get-Printer-Attributes (HTTP status, IPP status, printer-state absent/idle/processing/stopped/unregistered/wrong syntax, printer-state-reasons absent / single keyword / set with a blocking keyword at any position / informational only) and reply to Print-Job (HTTP status, IPP status; job-attributes part with three attributes / an empty group / no group / two groups), each under a seeded framing and segmentation, and in 1 of 12 runs each cut by the printer inside its attributes (a failed exchange); 1 of 8 file runs passes the document through a symbolic link, 1 of 25 names it `-` in the command's working directory (with different bytes on standard input); 1 of 6 successful Print-Job replies lists some of the given options in an unsupported-attributes group; option values include text that looks like other IPP syntaxes (600dpi, 1-5, 2024-01-01, yes/no ...); option keys are mostly private names, sometimes names that mean something elsewhere in a message (job-id, printer-uri, attributes-charset, copies ...). Oracle = reference model of the command: expected request history (query first unless -n; no Print-Job when the query fails, the status is unsuccessful, the printer is stopped or a blocking reason is present; otherwise exactly one Print-Job to the canonical printer-uri with job-name / requesting-user-name as name values, job attributes typed by their text compared through the reference decoder, document bytes identical) and exit status (0 iff every exchange was HTTP 200 with a successful IPP status). Cells the statement leaves open (unregistered state value, wrong state syntax) accept either behaviour. distinct_nontrivial = distinct (command line, printer script, history, exit) hashes."
            .into()
    }
    fn assumptions(&self) -> Vec<String> {
        vec![
            "black-box tier: the subject is a separate OS process over real loopback TCP; only the peer is simulated and seeded (outcome-deterministic, verified by the determinism self-check)".into(),
            "options without '=', empty option keys, values starting with '-' for -j/-u and non-UTF-8 arguments are not generated".into(),
            "a run in which ipputil does not exit within 45 s is reported as class 'hang'".into(),
        ]
    }
    fn components(&self) -> Value {
        json!({
            "real": ["util/src/main.rs (ipputil binary, release build, no hooks)", "ipp::client::blocking::IppClient", "IppOperationBuilder::print_job / get_printer_attributes", "ipp::util::is_printer_ready", "IppValue::from_str", "BufReader<File> / stdin payload", "ureq", "kernel loopback TCP", "clap"],
            "simulated": ["printer (scripted HTTP/1.1 + IPP peer)"],
            "stubbed": []
        })
    }
}
