//! Helpers shared by the parser-facing properties: reach matrices and shrinkers.

use std::collections::BTreeMap;

use serde_json::{json, Value};

use crate::{
    framework::RunReport,
    gen::{MMsg, Stream},
    refcodec::{Tok, TokClass, WMsg, WVal},
    wire::{Ev, SourceSpec},
};

fn place(toks: &[Tok], boundary: usize, off: usize) -> Option<(TokClass, bool)> {
    if off >= boundary {
        return None;
    }
    for t in toks {
        if off >= t.start && off < t.end {
            return Some((t.class, off > t.start));
        }
    }
    None
}

/// event kind x token class reach counters (only events strictly before the boundary count)
pub fn reach_counters(rep: &mut RunReport, toks: &[Tok], boundary: usize, cuts: &[u32], eintrs: &[u32], pends: &[u32]) {
    for &c in cuts {
        if let Some((cl, inside)) = place(toks, boundary, c as usize) {
            rep.count(&format!("reach.cut_{}.{}", if inside { "inside" } else { "before" }, cl.name()), 1);
        }
    }
    for &c in eintrs {
        if let Some((cl, inside)) = place(toks, boundary, c as usize) {
            rep.count(&format!("reach.eintr_{}.{}", if inside { "inside" } else { "before" }, cl.name()), 1);
        }
    }
    for &c in pends {
        if let Some((cl, inside)) = place(toks, boundary, c as usize) {
            rep.count(&format!("reach.pending_{}.{}", if inside { "inside" } else { "before" }, cl.name()), 1);
        }
    }
}

pub fn reach_matrix(counters: &BTreeMap<String, u64>) -> Value {
    let mut m: BTreeMap<String, BTreeMap<String, u64>> = BTreeMap::new();
    for (k, v) in counters {
        if let Some(rest) = k.strip_prefix("reach.") {
            if let Some((ev, cl)) = rest.split_once('.') {
                m.entry(ev.to_string()).or_default().insert(cl.to_string(), *v);
            }
        }
    }
    // cells that can be non-zero: a chunk boundary can fall inside every multi-byte token class
    let multi = ["version", "op_or_status", "request_id", "name_length", "name", "value_length", "value"];
    let mut zero = Vec::new();
    for ev in ["cut_inside", "eintr_inside", "pending_inside"] {
        if let Some(row) = m.get(ev) {
            for c in multi {
                if row.get(c).copied().unwrap_or(0) == 0 {
                    zero.push(format!("{ev}.{c}"));
                }
            }
        }
    }
    json!({ "reach_matrix_event_x_token_class": m, "reach_zero_cells": zero })
}

pub fn shrink_spec(s: &SourceSpec) -> Vec<SourceSpec> {
    let mut out = Vec::new();
    if s.trace.is_empty() {
        return out;
    }
    // deliver everything whole
    out.push(SourceSpec { trace: vec![], fault: s.fault });
    // no noise events
    let quiet: Vec<Ev> = s.trace.iter().copied().filter(|e| matches!(e, Ev::Give(_))).collect();
    if quiet.len() != s.trace.len() {
        out.push(SourceSpec { trace: quiet, fault: s.fault });
    }
    // only noise events removed one kind at a time is covered above; now halves, quarters, single events
    let n = s.trace.len();
    let mut width = n / 2;
    while width >= 1 {
        let mut start = 0;
        while start < n {
            let end = (start + width).min(n);
            let mut t = s.trace.clone();
            // merging removed Give sizes into the neighbour keeps later cut positions where they were
            let removed: u64 = t[start..end].iter().map(|e| if let Ev::Give(k) = e { *k as u64 } else { 0 }).sum();
            t.drain(start..end);
            if removed > 0 {
                if let Some(Ev::Give(k)) = t.get_mut(start) {
                    *k = (*k as u64 + removed).min(u32::MAX as u64) as u32;
                }
            }
            out.push(SourceSpec { trace: t, fault: s.fault });
            start = end;
            if out.len() > 400 {
                return out;
            }
        }
        if width == 1 {
            break;
        }
        width /= 2;
    }
    out
}

/// byte-at-a-time delivery: the fragmentation under which most delivery bugs still show after the stream shrank
pub fn ones_spec(s: &SourceSpec) -> SourceSpec {
    SourceSpec { trace: (0..512).map(|_| Ev::Give(1)).collect(), fault: s.fault }
}

pub fn shrink_payload(p: &[u8]) -> Vec<Vec<u8>> {
    let mut out = Vec::new();
    if p.is_empty() {
        return out;
    }
    out.push(vec![]);
    if p.len() > 1 {
        out.push(p[..p.len() / 2].to_vec());
        out.push(p[..1].to_vec());
        out.push(p[..p.len() - 1].to_vec());
    }
    if p.iter().any(|&b| b != 0x61) {
        out.push(vec![0x61; p.len()]);
    }
    out
}

fn shrink_wval(v: &WVal) -> Vec<WVal> {
    let mut out = Vec::new();
    match v {
        WVal::Scalar { tag, body } => {
            // only variable-length syntaxes may be shortened without leaving the well-formed domain
            let variable = !matches!(tag, 0x21 | 0x22 | 0x23 | 0x31 | 0x32 | 0x33 | 0x35 | 0x36);
            if variable && !body.is_empty() {
                out.push(WVal::Scalar { tag: *tag, body: vec![] });
                if body.len() > 1 {
                    out.push(WVal::Scalar { tag: *tag, body: body[..body.len() / 2].to_vec() });
                }
            }
        }
        WVal::Coll(ms) => {
            out.push(WVal::Coll(vec![]));
            for i in 0..ms.len() {
                let mut m2 = ms.clone();
                m2.remove(i);
                out.push(WVal::Coll(m2));
            }
            for i in 0..ms.len() {
                for j in 0..ms[i].values.len() {
                    if ms[i].values.len() > 1 {
                        let mut m2 = ms.clone();
                        m2[i].values.remove(j);
                        out.push(WVal::Coll(m2));
                    }
                    for sv in shrink_wval(&ms[i].values[j]) {
                        let mut m2 = ms.clone();
                        m2[i].values[j] = sv;
                        out.push(WVal::Coll(m2));
                    }
                }
            }
        }
    }
    out
}

pub fn shrink_wmsg(w: &WMsg) -> Vec<WMsg> {
    // candidates are whole clones: keep their number proportional to what the message weighs (a 66 000-value
    // message must not be cloned 66 000 times)
    let weight: usize = w.groups.iter().flat_map(|g| g.attrs.iter()).map(|a| a.values.len() + 1).sum::<usize>().max(1);
    let budget = (2_000_000 / weight).clamp(8, 600);
    let mut out = Vec::new();
    for gi in 0..w.groups.len() {
        let mut m = w.clone();
        m.groups.remove(gi);
        out.push(m);
    }
    'attrs: for gi in 0..w.groups.len() {
        for ai in 0..w.groups[gi].attrs.len() {
            if out.len() >= budget {
                break 'attrs;
            }
            let mut m = w.clone();
            m.groups[gi].attrs.remove(ai);
            out.push(m);
        }
    }
    'values: for gi in 0..w.groups.len() {
        for ai in 0..w.groups[gi].attrs.len() {
            let a = &w.groups[gi].attrs[ai];
            if out.len() >= budget {
                break 'values;
            }
            if a.name.len() > 1 {
                let mut m = w.clone();
                m.groups[gi].attrs[ai].name = a.name[..1].to_vec();
                out.push(m);
            }
            if a.values.len() > 64 {
                // wide sets shrink by halves, not value by value
                let n = a.values.len();
                for keep in [0..n / 2, n / 2..n, 0..n - 1, 0..1] {
                    let mut m = w.clone();
                    m.groups[gi].attrs[ai].values = a.values[keep].to_vec();
                    out.push(m);
                }
                continue;
            }
            for vi in 0..a.values.len() {
                if out.len() >= budget {
                    break 'values;
                }
                if a.values.len() > 1 {
                    let mut m = w.clone();
                    m.groups[gi].attrs[ai].values.remove(vi);
                    out.push(m);
                }
                for sv in shrink_wval(&a.values[vi]) {
                    let mut m = w.clone();
                    m.groups[gi].attrs[ai].values[vi] = sv;
                    out.push(m);
                }
            }
        }
    }
    out.truncate(budget.max(8));
    out
}

pub fn shrink_mmsg(w: &MMsg) -> Vec<MMsg> {
    let mut out = Vec::new();
    for gi in 1..w.groups.len() {
        let mut m = w.clone();
        m.groups.remove(gi);
        out.push(m);
    }
    for gi in 0..w.groups.len() {
        for ai in 0..w.groups[gi].attrs.len() {
            let mut m = w.clone();
            m.groups[gi].attrs.remove(ai);
            out.push(m);
        }
    }
    out
}

pub fn shrink_stream(s: &Stream) -> Vec<Stream> {
    match s {
        Stream::Wire(w) => shrink_wmsg(w).into_iter().map(Stream::Wire).collect(),
        Stream::Model(m) => shrink_mmsg(m).into_iter().map(Stream::Model).collect(),
        Stream::Raw(b) => {
            let mut out = Vec::new();
            if b.len() > 1 {
                out.push(Stream::Raw(b[..b.len() / 2].to_vec()));
                out.push(Stream::Raw(b[..b.len() - 1].to_vec()));
                // delete a byte range
                let n = b.len();
                let mut width = n / 4;
                while width >= 1 {
                    let mut start = 8.min(n);
                    while start + width <= n {
                        let mut c = b.clone();
                        c.drain(start..start + width);
                        out.push(Stream::Raw(c));
                        start += width;
                        if out.len() > 300 {
                            return out;
                        }
                    }
                    if width == 1 {
                        break;
                    }
                    width /= 2;
                }
            }
            out
        }
    }
}
