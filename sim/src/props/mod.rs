pub mod common;
pub mod c06;
