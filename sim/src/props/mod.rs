pub mod common;
pub mod c05;
pub mod c06;
pub mod c07;
pub mod c08;
pub mod c09;
pub mod c02;
pub mod c11;
pub mod c18;
#[cfg(any(feature = "tlsnative", feature = "tlsrustls"))]
pub mod c12;
