//! Reference RFC 8010 §3 encoder / tokenizer / decoder, written from the RFC, independent of ipp's value.rs.
//! Used to build well-formed streams (including forms the crate's encoder never emits), to place faults by token
//! class, to read attribute names in order (C09) and to decode request bodies (C11, C18). It is never used to judge
//! the crate's *interpretation* of values.

use serde::{Deserialize, Serialize};

pub mod hexbytes {
    use serde::{Deserialize, Deserializer, Serializer};
    pub fn to_hex(b: &[u8]) -> String {
        let mut s = String::with_capacity(b.len() * 2);
        for x in b {
            s.push_str(&format!("{:02x}", x));
        }
        s
    }
    pub fn from_hex(s: &str) -> Result<Vec<u8>, String> {
        if s.len() % 2 != 0 {
            return Err("odd hex".into());
        }
        (0..s.len())
            .step_by(2)
            .map(|i| u8::from_str_radix(&s[i..i + 2], 16).map_err(|e| e.to_string()))
            .collect()
    }
    pub fn serialize<S: Serializer>(b: &Vec<u8>, s: S) -> Result<S::Ok, S::Error> {
        s.serialize_str(&to_hex(b))
    }
    pub fn deserialize<'de, D: Deserializer<'de>>(d: D) -> Result<Vec<u8>, D::Error> {
        let s = String::deserialize(d)?;
        from_hex(&s).map_err(serde::de::Error::custom)
    }
}

#[derive(Clone, Debug, PartialEq, Eq, Serialize, Deserialize)]
pub enum WVal {
    Scalar {
        tag: u8,
        #[serde(with = "hexbytes")]
        body: Vec<u8>,
    },
    Coll(Vec<WMember>),
}

#[derive(Clone, Debug, PartialEq, Eq, Serialize, Deserialize)]
pub struct WMember {
    #[serde(with = "hexbytes")]
    pub name: Vec<u8>,
    pub values: Vec<WVal>,
}

#[derive(Clone, Debug, PartialEq, Eq, Serialize, Deserialize)]
pub struct WAttr {
    #[serde(with = "hexbytes")]
    pub name: Vec<u8>,
    pub values: Vec<WVal>,
}

#[derive(Clone, Debug, PartialEq, Eq, Serialize, Deserialize)]
pub struct WGroup {
    pub tag: u8,
    pub attrs: Vec<WAttr>,
}

#[derive(Clone, Debug, PartialEq, Eq, Serialize, Deserialize)]
pub struct WMsg {
    pub version: u16,
    pub op: u16,
    pub reqid: u32,
    pub groups: Vec<WGroup>,
}

#[derive(Clone, Copy, Debug, PartialEq, Eq, Hash, PartialOrd, Ord, Serialize, Deserialize)]
pub enum TokClass {
    Version,
    Op,
    ReqId,
    Delim,
    ValueTag,
    NameLen,
    Name,
    ValueLen,
    Value,
    EndTag,
    Payload,
}

impl TokClass {
    pub const ALL: [TokClass; 11] = [
        TokClass::Version,
        TokClass::Op,
        TokClass::ReqId,
        TokClass::Delim,
        TokClass::ValueTag,
        TokClass::NameLen,
        TokClass::Name,
        TokClass::ValueLen,
        TokClass::Value,
        TokClass::EndTag,
        TokClass::Payload,
    ];
    pub fn idx(self) -> usize {
        TokClass::ALL.iter().position(|c| *c == self).unwrap()
    }
    pub fn name(self) -> &'static str {
        match self {
            TokClass::Version => "version",
            TokClass::Op => "op_or_status",
            TokClass::ReqId => "request_id",
            TokClass::Delim => "delimiter",
            TokClass::ValueTag => "value_tag",
            TokClass::NameLen => "name_length",
            TokClass::Name => "name",
            TokClass::ValueLen => "value_length",
            TokClass::Value => "value",
            TokClass::EndTag => "end_tag",
            TokClass::Payload => "payload",
        }
    }
}

#[derive(Clone, Copy, Debug, PartialEq, Eq)]
pub struct Tok {
    pub class: TokClass,
    pub start: usize,
    pub end: usize,
    /// collection nesting depth at this token
    pub depth: u16,
}

pub struct Encoded {
    pub bytes: Vec<u8>,
    pub toks: Vec<Tok>,
}

struct Enc {
    out: Vec<u8>,
    toks: Vec<Tok>,
    depth: u16,
}

impl Enc {
    fn put(&mut self, class: TokClass, b: &[u8]) {
        let start = self.out.len();
        self.out.extend_from_slice(b);
        if !b.is_empty() {
            self.toks.push(Tok {
                class,
                start,
                end: self.out.len(),
                depth: self.depth,
            });
        }
    }
    fn elem(&mut self, tag: u8, name: &[u8], value: &[u8]) {
        self.put(TokClass::ValueTag, &[tag]);
        self.put(TokClass::NameLen, &(name.len() as u16).to_be_bytes());
        self.put(TokClass::Name, name);
        self.put(TokClass::ValueLen, &(value.len() as u16).to_be_bytes());
        self.put(TokClass::Value, value);
    }
    fn val(&mut self, name: &[u8], v: &WVal) {
        match v {
            WVal::Scalar { tag, body } => self.elem(*tag, name, body),
            WVal::Coll(members) => {
                self.elem(0x34, name, &[]);
                self.depth += 1;
                for m in members {
                    self.elem(0x4a, &[], &m.name);
                    for mv in &m.values {
                        self.val(&[], mv);
                    }
                }
                self.depth -= 1;
                self.elem(0x37, &[], &[]);
            }
        }
    }
}

pub fn encode(m: &WMsg) -> Encoded {
    let mut e = Enc {
        out: Vec::new(),
        toks: Vec::new(),
        depth: 0,
    };
    e.put(TokClass::Version, &m.version.to_be_bytes());
    e.put(TokClass::Op, &m.op.to_be_bytes());
    e.put(TokClass::ReqId, &m.reqid.to_be_bytes());
    for g in &m.groups {
        e.put(TokClass::Delim, &[g.tag]);
        for a in &g.attrs {
            for (i, v) in a.values.iter().enumerate() {
                if i == 0 {
                    e.val(&a.name, v);
                } else {
                    e.val(&[], v);
                }
            }
        }
    }
    e.put(TokClass::EndTag, &[0x03]);
    Encoded {
        bytes: e.out,
        toks: e.toks,
    }
}

/// One (tag, name, value) element as cut out of a byte string.
#[derive(Clone, Debug, PartialEq, Eq)]
pub struct Elem {
    pub tag: u8,
    pub name: Vec<u8>,
    pub value: Vec<u8>,
    pub start: usize,
}

#[derive(Clone, Debug)]
pub enum Item {
    Delim(u8, usize),
    Elem(Elem),
}

/// Best-effort scan of header + attribute section. Returns the items it could still cut out, the token map, and
/// `Some(boundary)` (offset just past the end-of-attributes tag) when it reached one.
pub fn scan(b: &[u8]) -> (Option<(u16, u16, u32)>, Vec<Item>, Vec<Tok>, Option<usize>) {
    let mut toks = Vec::new();
    let mut items = Vec::new();
    if b.len() < 8 {
        return (None, items, toks, None);
    }
    let hdr = (
        u16::from_be_bytes([b[0], b[1]]),
        u16::from_be_bytes([b[2], b[3]]),
        u32::from_be_bytes([b[4], b[5], b[6], b[7]]),
    );
    toks.push(Tok { class: TokClass::Version, start: 0, end: 2, depth: 0 });
    toks.push(Tok { class: TokClass::Op, start: 2, end: 4, depth: 0 });
    toks.push(Tok { class: TokClass::ReqId, start: 4, end: 8, depth: 0 });
    let mut p = 8usize;
    let mut depth: u16 = 0;
    loop {
        if p >= b.len() {
            return (Some(hdr), items, toks, None);
        }
        let tag = b[p];
        if tag <= 0x0f {
            if tag == 0x03 {
                toks.push(Tok { class: TokClass::EndTag, start: p, end: p + 1, depth });
                items.push(Item::Delim(tag, p));
                return (Some(hdr), items, toks, Some(p + 1));
            }
            toks.push(Tok { class: TokClass::Delim, start: p, end: p + 1, depth });
            items.push(Item::Delim(tag, p));
            p += 1;
            continue;
        }
        let start = p;
        if p + 3 > b.len() {
            return (Some(hdr), items, toks, None);
        }
        let nl = u16::from_be_bytes([b[p + 1], b[p + 2]]) as usize;
        if p + 3 + nl + 2 > b.len() {
            return (Some(hdr), items, toks, None);
        }
        let vl = u16::from_be_bytes([b[p + 3 + nl], b[p + 4 + nl]]) as usize;
        if p + 5 + nl + vl > b.len() {
            return (Some(hdr), items, toks, None);
        }
        if tag == 0x37 && depth > 0 {
            depth -= 1;
        }
        toks.push(Tok { class: TokClass::ValueTag, start: p, end: p + 1, depth });
        toks.push(Tok { class: TokClass::NameLen, start: p + 1, end: p + 3, depth });
        if nl > 0 {
            toks.push(Tok { class: TokClass::Name, start: p + 3, end: p + 3 + nl, depth });
        }
        toks.push(Tok { class: TokClass::ValueLen, start: p + 3 + nl, end: p + 5 + nl, depth });
        if vl > 0 {
            toks.push(Tok { class: TokClass::Value, start: p + 5 + nl, end: p + 5 + nl + vl, depth });
        }
        items.push(Item::Elem(Elem {
            tag,
            name: b[p + 3..p + 3 + nl].to_vec(),
            value: b[p + 5 + nl..p + 5 + nl + vl].to_vec(),
            start,
        }));
        if tag == 0x34 {
            depth = depth.saturating_add(1);
        }
        p += 5 + nl + vl;
    }
}

/// Strict decode of a well-formed message into the wire tree; returns the tree and the boundary offset.
pub fn decode(b: &[u8]) -> Result<(WMsg, usize), String> {
    let (hdr, items, _toks, boundary) = scan(b);
    let hdr = hdr.ok_or("short header")?;
    let boundary = boundary.ok_or("no end-of-attributes tag")?;
    let mut msg = WMsg {
        version: hdr.0,
        op: hdr.1,
        reqid: hdr.2,
        groups: Vec::new(),
    };
    // stack of open collections: (members so far)
    struct Open {
        members: Vec<WMember>,
    }
    let mut stack: Vec<Open> = Vec::new();
    let mut cur_attr: Option<WAttr> = None;

    fn push_val(stack: &mut [Open], cur_attr: &mut Option<WAttr>, v: WVal) -> Result<(), String> {
        if let Some(top) = stack.last_mut() {
            let m = top.members.last_mut().ok_or("member value before member name")?;
            m.values.push(v);
            Ok(())
        } else {
            let a = cur_attr.as_mut().ok_or("additional value without attribute")?;
            a.values.push(v);
            Ok(())
        }
    }

    for it in items {
        match it {
            Item::Delim(tag, _) => {
                if !stack.is_empty() {
                    return Err("delimiter inside collection".into());
                }
                if let Some(a) = cur_attr.take() {
                    msg.groups.last_mut().ok_or("attribute before group")?.attrs.push(a);
                }
                if tag == 0x03 {
                    break;
                }
                if !(0x01..=0x05).contains(&tag) {
                    return Err(format!("bad delimiter {tag:#x}"));
                }
                msg.groups.push(WGroup { tag, attrs: Vec::new() });
            }
            Item::Elem(e) => {
                if !(0x10..=0x4a).contains(&e.tag) {
                    // RFC 8010 reserves 0x4b-0xff; treat as malformed for strict decode
                    return Err(format!("bad value tag {:#x}", e.tag));
                }
                if stack.is_empty() && !e.name.is_empty() {
                    if let Some(a) = cur_attr.take() {
                        msg.groups.last_mut().ok_or("attribute before group")?.attrs.push(a);
                    }
                    if msg.groups.is_empty() {
                        return Err("attribute before first group".into());
                    }
                    cur_attr = Some(WAttr { name: e.name.clone(), values: Vec::new() });
                } else if !e.name.is_empty() {
                    return Err("named element inside collection".into());
                }
                match e.tag {
                    0x34 => {
                        if !e.value.is_empty() {
                            return Err("begCollection with value".into());
                        }
                        stack.push(Open { members: Vec::new() });
                    }
                    0x37 => {
                        if !e.value.is_empty() {
                            return Err("endCollection with value".into());
                        }
                        let o = stack.pop().ok_or("endCollection without begin")?;
                        push_val(&mut stack, &mut cur_attr, WVal::Coll(o.members))?;
                    }
                    0x4a => {
                        let top = stack.last_mut().ok_or("memberAttrName outside collection")?;
                        top.members.push(WMember { name: e.value.clone(), values: Vec::new() });
                    }
                    t => push_val(&mut stack, &mut cur_attr, WVal::Scalar { tag: t, body: e.value.clone() })?,
                }
            }
        }
    }
    if !stack.is_empty() {
        return Err("unterminated collection".into());
    }
    Ok((msg, boundary))
}

/// Names of the attributes of the first group, in wire order (a name-bearing element outside any collection starts
/// an attribute). Also returns the first delimiter byte.
pub fn first_group_names(b: &[u8]) -> Option<(u8, Vec<String>)> {
    let (_h, items, _t, _bd) = scan(b);
    let mut it = items.into_iter();
    let first = match it.next()? {
        Item::Delim(t, _) => t,
        Item::Elem(_) => return None,
    };
    let mut names = Vec::new();
    for i in it {
        match i {
            Item::Delim(..) => break,
            Item::Elem(e) => {
                if !e.name.is_empty() {
                    names.push(String::from_utf8_lossy(&e.name).into_owned());
                }
            }
        }
    }
    Some((first, names))
}

/// (delimiter, attribute names in wire order) for every group of the message
pub fn group_names(b: &[u8]) -> Vec<(u8, Vec<String>)> {
    let (_h, items, _t, _bd) = scan(b);
    let mut out: Vec<(u8, Vec<String>)> = Vec::new();
    for i in items {
        match i {
            Item::Delim(t, _) => {
                if t != 0x03 {
                    out.push((t, Vec::new()));
                }
            }
            Item::Elem(e) => {
                if !e.name.is_empty() {
                    if let Some(g) = out.last_mut() {
                        g.1.push(String::from_utf8_lossy(&e.name).into_owned());
                    }
                }
            }
        }
    }
    out
}

/// token class at a byte offset (Payload past the boundary)
pub fn class_at(toks: &[Tok], off: usize) -> TokClass {
    for t in toks {
        if off >= t.start && off < t.end {
            return t.class;
        }
    }
    TokClass::Payload
}

/// class of the token that *starts* at offset, or the one containing it, with "inside" flag
pub fn locate(toks: &[Tok], off: usize) -> (TokClass, bool) {
    for t in toks {
        if off >= t.start && off < t.end {
            return (t.class, off > t.start);
        }
    }
    (TokClass::Payload, false)
}
