//! One integer decides everything: SplitMix64 seeds xoshiro256**.
//! The PRNG is consumed only while *generating* workloads and traces, never while running them.

#[derive(Clone, Debug)]
pub struct Rng {
    s: [u64; 4],
}

#[inline]
pub fn splitmix(x: &mut u64) -> u64 {
    *x = x.wrapping_add(0x9e37_79b9_7f4a_7c15);
    let mut z = *x;
    z = (z ^ (z >> 30)).wrapping_mul(0xbf58_476d_1ce4_e5b9);
    z = (z ^ (z >> 27)).wrapping_mul(0x94d0_49bb_1331_11eb);
    z ^ (z >> 31)
}

/// Mix a seed with a stream label (run number, purpose tag) into a new seed.
pub fn mix(seed: u64, label: u64) -> u64 {
    let mut x = seed ^ label.wrapping_mul(0xd6e8_feb8_6659_fd93).rotate_left(29);
    let a = splitmix(&mut x);
    let b = splitmix(&mut x);
    a ^ b.rotate_left(17)
}

impl Rng {
    pub fn new(seed: u64) -> Rng {
        let mut x = seed;
        let s = [splitmix(&mut x), splitmix(&mut x), splitmix(&mut x), splitmix(&mut x)];
        Rng { s }
    }

    #[inline]
    pub fn next(&mut self) -> u64 {
        let r = self.s[1].wrapping_mul(5).rotate_left(7).wrapping_mul(9);
        let t = self.s[1] << 17;
        self.s[2] ^= self.s[0];
        self.s[3] ^= self.s[1];
        self.s[1] ^= self.s[2];
        self.s[0] ^= self.s[3];
        self.s[2] ^= t;
        self.s[3] = self.s[3].rotate_left(45);
        r
    }

    /// uniform in 0..n (n > 0)
    #[inline]
    pub fn below(&mut self, n: u64) -> u64 {
        debug_assert!(n > 0);
        // multiply-shift; bias is irrelevant here
        ((self.next() as u128 * n as u128) >> 64) as u64
    }

    /// uniform in lo..=hi
    #[inline]
    pub fn range(&mut self, lo: u64, hi: u64) -> u64 {
        lo + self.below(hi - lo + 1)
    }

    #[inline]
    pub fn usize(&mut self, lo: usize, hi: usize) -> usize {
        self.range(lo as u64, hi as u64) as usize
    }

    /// true with probability num/den
    #[inline]
    pub fn chance(&mut self, num: u64, den: u64) -> bool {
        self.below(den) < num
    }

    pub fn byte(&mut self) -> u8 {
        self.next() as u8
    }

    pub fn bytes(&mut self, n: usize) -> Vec<u8> {
        let mut v = Vec::with_capacity(n);
        while v.len() + 8 <= n {
            v.extend_from_slice(&self.next().to_le_bytes());
        }
        while v.len() < n {
            v.push(self.byte());
        }
        v
    }

    pub fn pick<'a, T>(&mut self, xs: &'a [T]) -> &'a T {
        &xs[self.below(xs.len() as u64) as usize]
    }

    /// geometric-ish: small values likely, up to max
    pub fn geometric(&mut self, max: usize) -> usize {
        let mut n = 0usize;
        while n < max && self.chance(1, 2) {
            n += 1;
        }
        n
    }

    /// log-uniform integer in 0..=max
    pub fn log_uniform(&mut self, max: u64) -> u64 {
        if max == 0 {
            return 0;
        }
        let bits = 64 - max.leading_zeros() as u64;
        let b = self.below(bits + 1);
        if b == 0 {
            return 0;
        }
        let lo = 1u64 << (b - 1);
        let hi = ((1u128 << b) - 1).min(max as u128) as u64;
        if lo > hi {
            return max;
        }
        self.range(lo, hi)
    }

    pub fn shuffle<T>(&mut self, xs: &mut [T]) {
        for i in (1..xs.len()).rev() {
            let j = self.below(i as u64 + 1) as usize;
            xs.swap(i, j);
        }
    }

    pub fn fork(&mut self) -> Rng {
        Rng::new(self.next())
    }
}

/// FNV-1a 64 used for effective-trace hashing (no HashMap RandomState anywhere in the harness).
#[derive(Clone, Copy)]
pub struct Fnv(pub u64);

impl Default for Fnv {
    fn default() -> Self {
        Fnv(0xcbf2_9ce4_8422_2325)
    }
}

impl Fnv {
    #[inline]
    pub fn u8(&mut self, b: u8) {
        self.0 ^= b as u64;
        self.0 = self.0.wrapping_mul(0x0000_0100_0000_01b3);
    }
    #[inline]
    pub fn u64(&mut self, v: u64) {
        for b in v.to_le_bytes() {
            self.u8(b);
        }
    }
    pub fn bytes(&mut self, bs: &[u8]) {
        for &b in bs {
            self.u8(b);
        }
    }
    pub fn finish(&self) -> u64 {
        // final avalanche
        let mut x = self.0;
        splitmix(&mut x)
    }
}
