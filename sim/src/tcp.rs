//! Loopback drivers for the simulated printer (tier B, C12, C18): real sockets, scripted peer.
//! The kernel's segmentation and the OS scheduler are NOT simulated here; oracles that use this driver are
//! timing-free and say so in their evidence.

use std::{
    collections::BTreeMap,
    io::{self, Read, Write},
    net::{Shutdown, TcpListener, TcpStream},
    os::fd::AsRawFd,
    sync::{
        atomic::{AtomicBool, Ordering},
        Arc, Mutex,
    },
    thread::JoinHandle,
    time::{Duration, Instant},
};

use crate::printer::{Conn, Out, ReqRecord, Script, Server};

pub struct SeenConn {
    /// position in accept order (handlers finish in any order; histories are judged in accept order)
    pub seq: u64,
    pub req: ReqRecord,
    pub script_key: Option<u32>,
    pub fault_hit: bool,
    pub reset_fired: bool,
    /// application bytes received (after the TLS handshake, when there is one)
    pub app_bytes: usize,
    pub handshake_error: Option<String>,
}

pub fn set_linger_zero(s: &TcpStream) {
    let l = libc::linger { l_onoff: 1, l_linger: 0 };
    unsafe {
        libc::setsockopt(s.as_raw_fd(), libc::SOL_SOCKET, libc::SO_LINGER, &l as *const _ as *const libc::c_void, std::mem::size_of::<libc::linger>() as libc::socklen_t);
    }
}

fn request_id_of(body: &[u8]) -> u32 {
    if body.len() >= 8 {
        u32::from_be_bytes([body[4], body[5], body[6], body[7]])
    } else {
        0
    }
}

fn operation_of(body: &[u8]) -> u32 {
    if body.len() >= 4 {
        u16::from_be_bytes([body[2], body[3]]) as u32
    } else {
        0
    }
}

/// Forces overlap of concurrent requests over real sockets: every handler, once it has read its whole request,
/// waits until all `n` requests have arrived (or a time-out: a client is free to serialise its sends), then the
/// responses are sent in the scripted `order` of request-ids. Outcome-level control only (no timing in oracles).
pub struct Gate {
    n: usize,
    /// seeded bytes: who writes the next response segment among the connections still answering
    schedule: Vec<u8>,
    st: Mutex<GateState>,
    cv: std::sync::Condvar,
}

struct GateState {
    arrived: usize,
    active: std::collections::BTreeSet<u32>,
    turn: usize,
}

impl Gate {
    pub fn new(n: usize, schedule: Vec<u8>) -> Arc<Gate> {
        Arc::new(Gate { n, schedule, st: Mutex::new(GateState { arrived: 0, active: Default::default(), turn: 0 }), cv: std::sync::Condvar::new() })
    }
    fn holder(&self, g: &GateState) -> Option<u32> {
        if g.active.is_empty() {
            return None;
        }
        let b = if self.schedule.is_empty() { 0 } else { self.schedule[g.turn % self.schedule.len()] as usize };
        g.active.iter().nth(b % g.active.len()).copied()
    }
    /// all n requests in flight before anybody is answered
    fn arrive_and_wait_turn(&self, key: u32, stop: &AtomicBool) {
        let t0 = Instant::now();
        let mut g = self.st.lock().unwrap();
        g.arrived += 1;
        g.active.insert(key);
        self.cv.notify_all();
        while g.arrived < self.n && !stop.load(Ordering::SeqCst) && t0.elapsed() < Duration::from_secs(3) {
            g = self.cv.wait_timeout(g, Duration::from_millis(20)).unwrap().0;
        }
    }
    /// the response segments of the concurrent connections are interleaved in the seeded order
    fn segment_turn(&self, key: u32, stop: &AtomicBool) {
        let t0 = Instant::now();
        let mut g = self.st.lock().unwrap();
        loop {
            match self.holder(&g) {
                Some(k) if k != key && g.active.contains(&key) && !stop.load(Ordering::SeqCst) && t0.elapsed() < Duration::from_secs(3) => {
                    g = self.cv.wait_timeout(g, Duration::from_millis(5)).unwrap().0;
                }
                _ => {
                    g.turn += 1;
                    self.cv.notify_all();
                    return;
                }
            }
        }
    }
    fn done(&self, key: u32) {
        let mut g = self.st.lock().unwrap();
        g.active.remove(&key);
        self.cv.notify_all();
    }
}

thread_local! {
    /// gate for the connections of the printer started next on this thread (set by the caller, taken by start)
    pub static NEXT_GATE: std::cell::RefCell<Option<Arc<Gate>>> = const { std::cell::RefCell::new(None) };
}

pub enum Hangup {
    /// close normally
    Fin,
    /// abort the connection (RST)
    Rst,
}

/// Serve one connection over any byte stream; `raw` is the underlying socket (timeouts, shutdown, RST).
pub fn serve<S: Read + Write>(stream: &mut S, raw: &TcpStream, scripts: &BTreeMap<u32, Script>, stop: &AtomicBool, key_by_op: bool) -> (SeenConn, Hangup) {
    serve_gated(stream, raw, scripts, stop, key_by_op, None)
}

pub fn serve_gated<S: Read + Write>(stream: &mut S, raw: &TcpStream, scripts: &BTreeMap<u32, Script>, stop: &AtomicBool, key_by_op: bool, gate: Option<&Gate>) -> (SeenConn, Hangup) {
    let (seen, h, key) = serve_inner(stream, raw, scripts, stop, key_by_op, gate);
    if let (Some(g), Some(k)) = (gate, key) {
        g.done(k);
    }
    (seen, h)
}

fn serve_inner<S: Read + Write>(stream: &mut S, raw: &TcpStream, scripts: &BTreeMap<u32, Script>, stop: &AtomicBool, key_by_op: bool, gate: Option<&Gate>) -> (SeenConn, Hangup, Option<u32>) {
    let mut seen = SeenConn { seq: 0, req: ReqRecord::default(), script_key: None, fault_hit: false, reset_fired: false, app_bytes: 0, handshake_error: None };
    let mut conn = Conn::new();
    let mut gkey: Option<u32> = None;
    let _ = raw.set_read_timeout(Some(Duration::from_millis(50)));
    let _ = raw.set_nodelay(true);
    let reset_after = if scripts.len() == 1 { scripts.values().next().and_then(|s| s.reset_request_after) } else { None };
    let mut buf = vec![0u8; 16384];
    let t0 = Instant::now();
    // phase 1: read the request
    let mut continue_sent = false;
    loop {
        if conn.complete() || conn.bad().is_some() {
            break;
        }
        if conn.wants_continue() && !continue_sent {
            continue_sent = true;
            let _ = stream.write_all(b"HTTP/1.1 100 Continue\r\n\r\n");
            let _ = stream.flush();
        }
        if let Some(r) = reset_after {
            if seen.app_bytes >= r as usize {
                seen.reset_fired = true;
                seen.req = conn.req.clone();
                return (seen, Hangup::Rst, gkey);
            }
        }
        if stop.load(Ordering::SeqCst) || t0.elapsed() > Duration::from_secs(30) {
            seen.req = conn.req.clone();
            return (seen, Hangup::Fin, gkey);
        }
        let want = match reset_after {
            Some(r) => ((r as usize).saturating_sub(seen.app_bytes)).clamp(1, buf.len()),
            None => buf.len(),
        };
        match stream.read(&mut buf[..want]) {
            Ok(0) => {
                seen.req = conn.req.clone();
                return (seen, Hangup::Fin, gkey);
            }
            Ok(n) => {
                seen.app_bytes += n;
                conn.feed(&buf[..n]);
            }
            Err(e) if matches!(e.kind(), io::ErrorKind::WouldBlock | io::ErrorKind::TimedOut | io::ErrorKind::Interrupted) => continue,
            Err(_) => {
                seen.req = conn.req.clone();
                return (seen, Hangup::Fin, gkey);
            }
        }
    }
    seen.req = conn.req.clone();
    if conn.bad().is_some() {
        let _ = stream.write_all(b"HTTP/1.1 400 Bad Request\r\nContent-Length: 0\r\nConnection: close\r\n\r\n");
        return (seen, Hangup::Fin, gkey);
    }
    // phase 2: answer from the script chosen by the IPP request-id
    let key = if key_by_op { operation_of(&conn.req.body) } else { request_id_of(&conn.req.body) };
    let (k, script) = match scripts.get(&key) {
        Some(s) => (key, s.clone()),
        None => {
            let (k, s) = scripts.iter().next().expect("script");
            (*k, s.clone())
        }
    };
    seen.script_key = Some(k);
    gkey = Some(k);
    if let Some(g) = gate {
        g.arrive_and_wait_turn(k, stop);
    }
    let mut server = Server::new(&script);
    loop {
        match server.next(usize::MAX) {
            Out::Data(d) => {
                if let Some(g) = gate {
                    g.segment_turn(k, stop);
                }
                if script.drip_ms > 0 {
                    std::thread::sleep(Duration::from_millis(script.drip_ms as u64));
                }
                if stream.write_all(&d).is_err() || stream.flush().is_err() {
                    return (seen, Hangup::Fin, gkey);
                }
            }
            Out::End => break,
            Out::Cut => {
                seen.fault_hit = true;
                return (seen, Hangup::Fin, gkey);
            }
            Out::Err(_) => {
                seen.fault_hit = true;
                return (seen, Hangup::Rst, gkey);
            }
            Out::Stall => {
                seen.fault_hit = true;
                // keep the connection open and silent until the client gives up (or the run ends)
                let t1 = Instant::now();
                loop {
                    if stop.load(Ordering::SeqCst) || t1.elapsed() > Duration::from_secs(40) {
                        return (seen, Hangup::Fin, gkey);
                    }
                    match stream.read(&mut buf) {
                        Ok(0) => return (seen, Hangup::Fin, gkey),
                        Ok(_) => {}
                        Err(e) if matches!(e.kind(), io::ErrorKind::WouldBlock | io::ErrorKind::TimedOut | io::ErrorKind::Interrupted) => {}
                        Err(_) => return (seen, Hangup::Fin, gkey),
                    }
                }
            }
        }
    }
    // everything sent. Close-delimited framing ends by closing; otherwise wait for the client to hang up first.
    if matches!(script.framing, crate::printer::Framing::CloseDelimited) {
        return (seen, Hangup::Fin, gkey);
    }
    let t2 = Instant::now();
    loop {
        if stop.load(Ordering::SeqCst) || t2.elapsed() > Duration::from_secs(10) {
            break;
        }
        match stream.read(&mut buf) {
            Ok(0) => break,
            Ok(_) => {}
            Err(e) if matches!(e.kind(), io::ErrorKind::WouldBlock | io::ErrorKind::TimedOut | io::ErrorKind::Interrupted) => {}
            Err(_) => break,
        }
    }
    (seen, Hangup::Fin, gkey)
}

pub fn hang_up(raw: &TcpStream, h: Hangup) {
    match h {
        Hangup::Fin => {
            let _ = raw.shutdown(Shutdown::Both);
        }
        Hangup::Rst => set_linger_zero(raw),
    }
}

thread_local! {
    static LISTENER: std::cell::RefCell<Option<TcpListener>> = const { std::cell::RefCell::new(None) };
}

/// A clone of this thread's long-lived loopback listener (bound on first use). A run's accept thread ends before the
/// next run of the same thread starts, so the clones never accept concurrently.
pub fn thread_listener() -> io::Result<TcpListener> {
    LISTENER.with(|c| {
        let mut g = c.borrow_mut();
        if g.is_none() {
            *g = Some(TcpListener::bind("127.0.0.1:0")?);
        }
        g.as_ref().unwrap().try_clone()
    })
}

pub struct TcpPrinter {
    pub port: u16,
    stop: Arc<AtomicBool>,
    accept: Option<JoinHandle<()>>,
    seen: Arc<Mutex<Vec<SeenConn>>>,
    handlers: Arc<Mutex<Vec<JoinHandle<()>>>>,
}

impl TcpPrinter {
    pub fn start(scripts: BTreeMap<u32, Script>, _expected: usize) -> io::Result<TcpPrinter> {
        Self::start_keyed(scripts, false)
    }

    /// `key_by_op`: choose the script by IPP operation id instead of request-id (ipputil always uses request-id 1)
    pub fn start_keyed(scripts: BTreeMap<u32, Script>, key_by_op: bool) -> io::Result<TcpPrinter> {
        // one listener per thread, bound once and reused by every run of that thread: per-run binds are what
        // fails first when tens of thousands of loopback connections sit in TIME_WAIT
        let l = thread_listener()?;
        let port = l.local_addr()?.port();
        let stop = Arc::new(AtomicBool::new(false));
        let seen = Arc::new(Mutex::new(Vec::new()));
        let handlers: Arc<Mutex<Vec<JoinHandle<()>>>> = Arc::new(Mutex::new(Vec::new()));
        let scripts = Arc::new(scripts);
        let gate: Option<Arc<Gate>> = NEXT_GATE.with(|g| g.borrow_mut().take());
        let (stop2, seen2, handlers2) = (stop.clone(), seen.clone(), handlers.clone());
        let accept = std::thread::Builder::new().name("sim-printer-accept".into()).spawn(move || {
            let mut seq = 0u64;
            for s in l.incoming() {
                if stop2.load(Ordering::SeqCst) {
                    break;
                }
                let Ok(mut s) = s else { continue };
                let (scripts, stop3, seen3) = (scripts.clone(), stop2.clone(), seen2.clone());
                let gate3 = gate.clone();
                let my_seq = seq;
                seq += 1;
                let h = std::thread::Builder::new().name("sim-printer-conn".into()).spawn(move || {
                    let raw = s.try_clone().expect("clone socket");
                    let (mut sc, h) = serve_gated(&mut s, &raw, &scripts, &stop3, key_by_op, gate3.as_deref());
                    sc.seq = my_seq;
                    seen3.lock().unwrap().push(sc);
                    hang_up(&raw, h);
                });
                if let Ok(h) = h {
                    handlers2.lock().unwrap().push(h);
                }
            }
        })?;
        Ok(TcpPrinter { port, stop, accept: Some(accept), seen, handlers })
    }

    /// stop accepting, wait for the connection handlers, return what was seen in ACCEPT order
    pub fn stop(mut self) -> Vec<SeenConn> {
        // handlers end when their client hangs up; give them a moment before forcing the stop flag
        let t0 = Instant::now();
        loop {
            let all_done = self.handlers.lock().unwrap().iter().all(|h| h.is_finished());
            if all_done || t0.elapsed() > Duration::from_millis(500) {
                break;
            }
            std::thread::sleep(Duration::from_micros(200));
        }
        self.stop.store(true, Ordering::SeqCst);
        if let Ok(w) = TcpStream::connect(("127.0.0.1", self.port)) {
            crate::tcp::set_linger_zero(&w); // wake the accept loop; abort instead of close: no TIME_WAIT left behind
        }
        if let Some(a) = self.accept.take() {
            let _ = a.join();
        }
        let hs: Vec<_> = std::mem::take(&mut *self.handlers.lock().unwrap());
        for h in hs {
            let _ = h.join();
        }
        let mut v = std::mem::take(&mut *self.seen.lock().unwrap());
        v.sort_by_key(|c| c.seq);
        v
    }
}
