//! Simulated byte sources: every return value of every `read` / `poll_read` is scripted.
//!
//! A source is `data` + a `SourceSpec` (schedule trace + at most one data-offset fault). The run draws nothing
//! from a PRNG: it pops events. When the trace runs dry the source delivers whatever is asked for.

use std::{
    io::{self, Read},
    pin::Pin,
    sync::{
        atomic::{AtomicBool, AtomicU64, Ordering},
        mpsc, Arc, Mutex,
    },
    task::{Context, Poll, Waker},
};

use futures_util::io::AsyncRead;
use serde::{Deserialize, Serialize};

use crate::rng::Fnv;

#[derive(Clone, Copy, Debug, PartialEq, Eq, Hash, PartialOrd, Ord, Serialize, Deserialize)]
pub enum ErrKind {
    ConnectionReset,
    ConnectionAborted,
    TimedOut,
    BrokenPipe,
    UnexpectedEof,
    PermissionDenied,
    Other,
    WouldBlock,
    InvalidData,
    Interrupted,
    Unknown,
}

impl ErrKind {
    pub const INJECTABLE: [ErrKind; 7] = [
        ErrKind::ConnectionReset,
        ErrKind::ConnectionAborted,
        ErrKind::TimedOut,
        ErrKind::BrokenPipe,
        ErrKind::UnexpectedEof,
        ErrKind::PermissionDenied,
        ErrKind::Other,
    ];

    pub fn to_io(self) -> io::ErrorKind {
        match self {
            ErrKind::ConnectionReset => io::ErrorKind::ConnectionReset,
            ErrKind::ConnectionAborted => io::ErrorKind::ConnectionAborted,
            ErrKind::TimedOut => io::ErrorKind::TimedOut,
            ErrKind::BrokenPipe => io::ErrorKind::BrokenPipe,
            ErrKind::UnexpectedEof => io::ErrorKind::UnexpectedEof,
            ErrKind::PermissionDenied => io::ErrorKind::PermissionDenied,
            ErrKind::Other => io::ErrorKind::Other,
            ErrKind::WouldBlock => io::ErrorKind::WouldBlock,
            ErrKind::InvalidData => io::ErrorKind::InvalidData,
            ErrKind::Interrupted => io::ErrorKind::Interrupted,
            ErrKind::Unknown => io::ErrorKind::Other,
        }
    }

    pub fn from_io(k: io::ErrorKind) -> ErrKind {
        match k {
            io::ErrorKind::ConnectionReset => ErrKind::ConnectionReset,
            io::ErrorKind::ConnectionAborted => ErrKind::ConnectionAborted,
            io::ErrorKind::TimedOut => ErrKind::TimedOut,
            io::ErrorKind::BrokenPipe => ErrKind::BrokenPipe,
            io::ErrorKind::UnexpectedEof => ErrKind::UnexpectedEof,
            io::ErrorKind::PermissionDenied => ErrKind::PermissionDenied,
            io::ErrorKind::Other => ErrKind::Other,
            io::ErrorKind::WouldBlock => ErrKind::WouldBlock,
            io::ErrorKind::InvalidData => ErrKind::InvalidData,
            io::ErrorKind::Interrupted => ErrKind::Interrupted,
            _ => ErrKind::Unknown,
        }
    }

    pub fn error(self) -> io::Error {
        io::Error::new(self.to_io(), "injected by simulator")
    }

    /// the same kind as a *raw OS error* (what a real socket or file returns: `raw_os_error()` is Some); kinds without
    /// an errno fall back to the synthetic form
    pub fn os_error(self) -> io::Error {
        let errno = match self {
            ErrKind::ConnectionReset => libc::ECONNRESET,
            ErrKind::ConnectionAborted => libc::ECONNABORTED,
            ErrKind::TimedOut => libc::ETIMEDOUT,
            ErrKind::BrokenPipe => libc::EPIPE,
            ErrKind::PermissionDenied => libc::EACCES,
            ErrKind::WouldBlock => libc::EAGAIN,
            // no errno for this kind: deliver it as an adapter-style *wrapped* error instead — the payload is itself
            // an io::Error of another kind; the kind of the error the source returned is still the outer one
            _ => return io::Error::new(self.to_io(), io::Error::from(io::ErrorKind::ConnectionReset)),
        };
        io::Error::from_raw_os_error(errno)
    }
}

#[derive(Clone, Copy, Debug, PartialEq, Eq, Serialize, Deserialize)]
pub enum Wake {
    /// `wake_by_ref` before returning `Pending`
    Inline,
    /// wake fired by the executor k ticks later
    After(u8),
    /// waker handed to the helper thread, which calls `wake()` (legal under `block_on`)
    Cross,
}

#[derive(Clone, Copy, Debug, PartialEq, Eq, Serialize, Deserialize)]
pub enum Ev {
    /// a chunk of n bytes arrives (n >= 1)
    Give(u32),
    /// blocking sources: `Err(Interrupted)`; ignored by async sources
    Eintr,
    /// async sources: `Pending`; `spurious` extra polls by the executor before the wake; ignored by blocking sources
    Pend { wake: Wake, spurious: u8 },
    /// one-shot error that consumes no data
    Fail(ErrKind),
    /// the call during which this event is reached takes that many milliseconds: the clock seam (LD_PRELOAD
    /// clock_gettime) jumps forward, nothing really waits; then the next event is processed
    Slow(u16),
}

#[derive(Clone, Copy, Debug, PartialEq, Eq, Serialize, Deserialize)]
pub enum FaultKind {
    Eof,
    Err(ErrKind),
}

/// A fault bound to a *data offset*: the source delivers bytes `0..at` (under any fragmentation); then every call
/// returns the fault (sticky, the default) or — `once` — exactly one call fails and the stream carries on behind it
/// (a transient error: the source *did* fail, a caller that silently retries has swallowed an I/O error).
#[derive(Clone, Copy, Debug, PartialEq, Eq, Serialize, Deserialize)]
pub struct Fault {
    pub at: u64,
    pub kind: FaultKind,
    #[serde(default)]
    pub once: bool,
    /// deliver the error as a raw OS error (errno) instead of a synthetic one
    #[serde(default)]
    pub os: bool,
}

#[derive(Clone, Debug, Default, PartialEq, Serialize, Deserialize)]
pub struct SourceSpec {
    pub trace: Vec<Ev>,
    pub fault: Option<Fault>,
}

#[derive(Clone, Debug, Default, PartialEq, Eq, Serialize)]
pub struct SrcStats {
    pub calls: u64,
    pub gives: u64,
    pub short_gives: u64,
    pub eintr: u64,
    pub pend_inline: u64,
    pub pend_after: u64,
    pub pend_cross: u64,
    pub blocked_polls: u64,
    pub fail_events: u64,
    pub fault_eof_hits: u64,
    pub fault_err_hits: u64,
    pub natural_eof_reads: u64,
    pub fallback_gives: u64,
    pub max_request: u64,
    pub slow_calls: u64,
}

impl SrcStats {
    pub fn add(&mut self, o: &SrcStats) {
        self.calls += o.calls;
        self.gives += o.gives;
        self.short_gives += o.short_gives;
        self.eintr += o.eintr;
        self.pend_inline += o.pend_inline;
        self.pend_after += o.pend_after;
        self.pend_cross += o.pend_cross;
        self.slow_calls += o.slow_calls;
        self.blocked_polls += o.blocked_polls;
        self.fail_events += o.fail_events;
        self.fault_eof_hits += o.fault_eof_hits;
        self.fault_err_hits += o.fault_err_hits;
        self.natural_eof_reads += o.natural_eof_reads;
        self.fallback_gives += o.fallback_gives;
        self.max_request = self.max_request.max(o.max_request);
    }
}

/// The simulator core shared by the executor and all sources of a run: the tick clock, deferred wakes and the
/// spurious-poll budget. No wall clock anywhere.
pub struct SimCore {
    pub tick: AtomicU64,
    wakes: Mutex<Vec<(u64, u64, Waker)>>, // (due, source id, waker) — at most one per source
    pub spurious_budget: AtomicU64,
    next_id: AtomicU64,
    cross: Mutex<Option<mpsc::Sender<Waker>>>,
    pub cross_sent: AtomicU64,
    pub cross_done: Arc<AtomicU64>,
}

impl SimCore {
    pub fn new() -> Arc<SimCore> {
        Arc::new(SimCore {
            tick: AtomicU64::new(0),
            wakes: Mutex::new(Vec::new()),
            spurious_budget: AtomicU64::new(0),
            next_id: AtomicU64::new(1),
            cross: Mutex::new(None),
            cross_sent: AtomicU64::new(0),
            cross_done: Arc::new(AtomicU64::new(0)),
        })
    }

    pub fn now(&self) -> u64 {
        self.tick.load(Ordering::SeqCst)
    }

    fn register(&self, due: u64, id: u64, w: Waker) {
        let mut q = self.wakes.lock().unwrap();
        if let Some(e) = q.iter_mut().find(|e| e.1 == id) {
            e.2 = w;
            e.0 = due;
        } else {
            q.push((due, id, w));
        }
    }

    fn replace_waker(&self, id: u64, w: Waker) {
        let mut q = self.wakes.lock().unwrap();
        if let Some(e) = q.iter_mut().find(|e| e.1 == id) {
            e.2 = w;
        }
    }

    /// advance the clock by one tick and fire everything due; returns the number of wakes fired
    pub fn advance(&self) -> usize {
        let now = self.tick.fetch_add(1, Ordering::SeqCst) + 1;
        let due: Vec<Waker> = {
            let mut q = self.wakes.lock().unwrap();
            let mut fired = Vec::new();
            let mut i = 0;
            while i < q.len() {
                if q[i].0 <= now {
                    fired.push(q.remove(i));
                } else {
                    i += 1;
                }
            }
            fired.sort_by_key(|e| (e.0, e.1));
            fired.into_iter().map(|e| e.2).collect()
        };
        let n = due.len();
        for w in due {
            w.wake();
        }
        n
    }

    pub fn pending_wakes(&self) -> usize {
        self.wakes.lock().unwrap().len()
    }

    /// next due tick, if any
    pub fn next_due(&self) -> Option<u64> {
        self.wakes.lock().unwrap().iter().map(|e| e.0).min()
    }

    /// jump the clock (discrete-event style) so that the next `advance` fires the earliest wake
    pub fn jump_to_next_due(&self) {
        if let Some(d) = self.next_due() {
            let now = self.now();
            if d > now + 1 {
                self.tick.store(d - 1, Ordering::SeqCst);
            }
        }
    }

    fn cross_wake(&self, w: Waker) {
        let mut g = self.cross.lock().unwrap();
        if g.is_none() {
            let (tx, rx) = mpsc::channel::<Waker>();
            let done = self.cross_done.clone();
            std::thread::Builder::new()
                .name("sim-cross-waker".into())
                .spawn(move || {
                    while let Ok(w) = rx.recv() {
                        w.wake();
                        done.fetch_add(1, Ordering::SeqCst);
                    }
                })
                .expect("spawn cross waker");
            *g = Some(tx);
        }
        self.cross_sent.fetch_add(1, Ordering::SeqCst);
        g.as_ref().unwrap().send(w).expect("cross waker alive");
    }
}

#[derive(Clone, Debug, Serialize)]
pub struct CallRec {
    pub req: u64,
    /// "ok:n", "eintr", "pend:inline", "pend:after", "pend:cross", "pend:blocked", "err:Kind", "eof"
    pub res: String,
    pub pos: u64,
}

pub struct SrcState {
    data: Arc<Vec<u8>>,
    pub pos: usize,
    spec: SourceSpec,
    tpos: usize,
    avail: usize,
    pub stats: SrcStats,
    pub hash: Fnv,
    pub record: bool,
    pub log: Vec<CallRec>,
    blocked_until: Option<u64>,
    id: u64,
    core: Arc<SimCore>,
    /// positions (data offsets) at which a call boundary fell strictly inside the data
    pub cut_positions: Vec<u32>,
    pub eintr_positions: Vec<u32>,
    pub pend_positions: Vec<u32>,
    pub track_positions: bool,
    pub reads_after_eof: u64,
    eof_seen: bool,
    pub livelock_broken: bool,
}

#[derive(Clone)]
pub struct SrcHandle(pub Arc<Mutex<SrcState>>);

impl SrcHandle {
    pub fn new(core: &Arc<SimCore>, data: Arc<Vec<u8>>, spec: SourceSpec) -> SrcHandle {
        let id = core.next_id.fetch_add(1, Ordering::SeqCst);
        SrcHandle(Arc::new(Mutex::new(SrcState {
            data,
            pos: 0,
            spec,
            tpos: 0,
            avail: 0,
            stats: SrcStats::default(),
            hash: Fnv::default(),
            record: false,
            log: Vec::new(),
            blocked_until: None,
            id,
            core: core.clone(),
            cut_positions: Vec::new(),
            eintr_positions: Vec::new(),
            pend_positions: Vec::new(),
            track_positions: false,
            reads_after_eof: 0,
            eof_seen: false,
            livelock_broken: false,
        })))
    }

    pub fn handed_out(&self) -> usize {
        self.0.lock().unwrap().pos
    }
    pub fn stats(&self) -> SrcStats {
        self.0.lock().unwrap().stats.clone()
    }
    pub fn trace_hash(&self) -> u64 {
        self.0.lock().unwrap().hash.finish()
    }
    pub fn set_record(&self, on: bool) {
        self.0.lock().unwrap().record = on;
    }
    pub fn set_track(&self, on: bool) {
        self.0.lock().unwrap().track_positions = on;
    }
    pub fn log(&self) -> Vec<CallRec> {
        self.0.lock().unwrap().log.clone()
    }
    pub fn events_consumed(&self) -> usize {
        self.0.lock().unwrap().tpos
    }
    pub fn reader(&self) -> SimRead {
        SimRead(self.0.clone())
    }
    pub fn async_reader(&self) -> SimAsyncRead {
        SimAsyncRead(self.0.clone())
    }
}

enum Step {
    Ok(usize),
    Err(ErrKind),
    ErrOs(ErrKind),
    Eintr,
    Pend(Wake, u8),
}

impl SrcState {
    fn note(&mut self, req: usize, res: &str, code: u64, n: u64) {
        self.hash.u64(req as u64);
        self.hash.u64(code);
        self.hash.u64(n);
        if self.record {
            self.log.push(CallRec {
                req: req as u64,
                res: res.to_string(),
                pos: self.pos as u64,
            });
        }
    }

    /// limit imposed by the fault offset / end of data
    fn limit(&self) -> usize {
        match self.spec.fault {
            Some(f) => (f.at as usize).min(self.data.len()),
            None => self.data.len(),
        }
    }

    fn at_end(&mut self, req: usize) -> Step {
        match self.spec.fault {
            Some(f) if (f.at as usize) <= self.data.len() && self.pos >= f.at as usize => match f.kind {
                FaultKind::Eof => {
                    self.stats.fault_eof_hits += 1;
                    self.note(req, "eof", 3, 0);
                    if self.eof_seen {
                        self.reads_after_eof += 1;
                    }
                    self.eof_seen = true;
                    if self.reads_after_eof > 4096 {
                        self.livelock_broken = true;
                        return Step::Err(ErrKind::Other);
                    }
                    Step::Ok(0)
                }
                FaultKind::Err(k) => {
                    self.stats.fault_err_hits += 1;
                    self.note(req, "err", 4, k as u64);
                    if f.once {
                        self.spec.fault = None;
                    }
                    if f.os {
                        Step::ErrOs(k)
                    } else {
                        Step::Err(k)
                    }
                }
            },
            _ => {
                self.stats.natural_eof_reads += 1;
                self.note(req, "eof", 3, 0);
                if self.eof_seen {
                    self.reads_after_eof += 1;
                }
                self.eof_seen = true;
                if self.reads_after_eof > 4096 {
                    // a caller spinning on end-of-stream: break its loop deterministically instead of waiting for the
                    // wall-clock watchdog (the property that owns the source reports `reads_after_eof`)
                    self.livelock_broken = true;
                    return Step::Err(ErrKind::Other);
                }
                Step::Ok(0)
            }
        }
    }

    fn deliver(&mut self, buf: &mut [u8]) -> Step {
        let lim = self.limit();
        if self.pos >= lim {
            return self.at_end(buf.len());
        }
        let k = buf.len().min(self.avail).min(lim - self.pos);
        buf[..k].copy_from_slice(&self.data[self.pos..self.pos + k]);
        self.pos += k;
        self.avail -= k;
        self.stats.gives += 1;
        if k < buf.len() {
            self.stats.short_gives += 1;
        }
        if self.avail == 0 && self.track_positions && self.pos < lim {
            self.cut_positions.push(self.pos as u32);
        }
        self.note(buf.len(), "ok", 1, k as u64);
        Step::Ok(k)
    }

    /// Chunk model: `Give(n)` means "a chunk of n bytes arrives". Reads are served from what has arrived; when
    /// that is drained the next event is popped — so Eintr / Pend / Fail happen at chunk boundaries, and chunk
    /// boundaries are absolute stream positions (a composition of the stream), independent of request sizes.
    fn step(&mut self, buf: &mut [u8], is_async: bool) -> Step {
        self.stats.calls += 1;
        self.stats.max_request = self.stats.max_request.max(buf.len() as u64);
        if buf.is_empty() {
            self.note(0, "ok", 1, 0);
            return Step::Ok(0);
        }
        while self.avail == 0 {
            let ev = self.spec.trace.get(self.tpos).copied();
            match ev {
                None => {
                    self.stats.fallback_gives += 1;
                    self.avail = usize::MAX;
                }
                Some(ev) => {
                    self.tpos += 1;
                    match ev {
                        Ev::Give(n) => self.avail = (n as usize).max(1),
                        Ev::Eintr => {
                            if is_async {
                                continue;
                            }
                            self.stats.eintr += 1;
                            if self.track_positions {
                                self.eintr_positions.push(self.pos as u32);
                            }
                            self.note(buf.len(), "eintr", 2, 0);
                            return Step::Eintr;
                        }
                        Ev::Pend { wake, spurious } => {
                            if !is_async {
                                continue;
                            }
                            if self.track_positions {
                                self.pend_positions.push(self.pos as u32);
                            }
                            return Step::Pend(wake, spurious);
                        }
                        Ev::Slow(ms) => {
                            if crate::hashseed::advance_clock_ms(ms as u32) {
                                self.stats.slow_calls += 1;
                            }
                            continue;
                        }
                        Ev::Fail(k) => {
                            self.stats.fail_events += 1;
                            self.note(buf.len(), "err", 4, k as u64);
                            return Step::Err(k);
                        }
                    }
                }
            }
        }
        self.deliver(buf)
    }
}

/// Blocking scripted source.
pub struct SimRead(Arc<Mutex<SrcState>>);

impl Read for SimRead {
    fn read(&mut self, buf: &mut [u8]) -> io::Result<usize> {
        let mut st = self.0.lock().unwrap();
        match st.step(buf, false) {
            Step::Ok(n) => Ok(n),
            Step::Err(k) => Err(k.error()),
            Step::ErrOs(k) => Err(k.os_error()),
            Step::Eintr => Err(io::Error::new(io::ErrorKind::Interrupted, "injected EINTR")),
            Step::Pend(..) => unreachable!(),
        }
    }
}

/// Poll-level scripted source.
pub struct SimAsyncRead(Arc<Mutex<SrcState>>);

impl AsyncRead for SimAsyncRead {
    fn poll_read(self: Pin<&mut Self>, cx: &mut Context<'_>, buf: &mut [u8]) -> Poll<io::Result<usize>> {
        let mut st = self.0.lock().unwrap();
        if let Some(due) = st.blocked_until {
            if st.core.now() < due {
                // polled before the wake fired (spurious poll): stay Pending, keep the newest waker
                st.stats.calls += 1;
                st.stats.blocked_polls += 1;
                let (id, core) = (st.id, st.core.clone());
                st.note(buf.len(), "pend:blocked", 5, 3);
                core.replace_waker(id, cx.waker().clone());
                return Poll::Pending;
            }
            st.blocked_until = None;
        }
        match st.step(buf, true) {
            Step::Ok(n) => Poll::Ready(Ok(n)),
            Step::Err(k) => Poll::Ready(Err(k.error())),
            Step::ErrOs(k) => Poll::Ready(Err(k.os_error())),
            Step::Eintr => unreachable!(),
            Step::Pend(wake, spurious) => {
                let req = buf.len();
                match wake {
                    Wake::Inline => {
                        st.stats.pend_inline += 1;
                        st.note(req, "pend:inline", 5, 0);
                        cx.waker().wake_by_ref();
                    }
                    Wake::After(k) => {
                        st.stats.pend_after += 1;
                        st.note(req, "pend:after", 5, 1 + ((k as u64) << 8) + ((spurious as u64) << 16));
                        let due = st.core.now() + (k.max(1) as u64);
                        st.blocked_until = Some(due);
                        let (id, core) = (st.id, st.core.clone());
                        core.register(due, id, cx.waker().clone());
                        core.spurious_budget.fetch_add(spurious as u64, Ordering::SeqCst);
                    }
                    Wake::Cross => {
                        st.stats.pend_cross += 1;
                        st.note(req, "pend:cross", 5, 2);
                        let core = st.core.clone();
                        core.cross_wake(cx.waker().clone());
                    }
                }
                Poll::Pending
            }
        }
    }
}

/// Waker that only sets a flag: the scripted executor decides when to poll.
pub struct FlagWaker {
    pub woken: AtomicBool,
    pub wakes: AtomicU64,
}

impl std::task::Wake for FlagWaker {
    fn wake(self: Arc<Self>) {
        self.wake_by_ref()
    }
    fn wake_by_ref(self: &Arc<Self>) {
        self.woken.store(true, Ordering::SeqCst);
        self.wakes.fetch_add(1, Ordering::SeqCst);
    }
}
